"""R-HANDLE — handle discipline: a proof of space precedes every store (DESIGN.md §5).

Everything is read from the MIR facts: which structs are handles, what capacity each
construction site establishes (cap_guard), how many units the handle's consuming methods
can store on any path (cap_use), linearity, and who may reach the storing primitives."""
from mirlib import *

DEST_TYPES = ('handles::Utf8Destination', 'handles::Utf16Destination', 'handles::ByteDestination')
READONLY_DEST_CALLS = ('written', 'remaining', 'len')

# Confirmed by reading (DESIGN.md Appendix D): sites whose space follows from the ASCII kernel's
# contract `Some((unit, consumed)) => consumed < min(src.len(), dst.len())`.  The structural part
# (Some-arm of that kernel called on the destination's remaining slice, position advanced by exactly
# `consumed`, nothing else stored) is still checked below.
KERNEL_CONTRACT_SITES = {
    'handles::Utf16Destination::copy_ascii_from_check_space_bmp': ('ascii::ascii_to_basic_latin', 'handles::Utf16BmpHandle'),
    'handles::Utf8Source::copy_ascii_to_check_space_one': ('ascii::ascii_to_ascii', 'handles::ByteOneHandle'),
}


def site(body, bi):
    return sp_str(body.blocks[bi]['tsp'])


def handle_types(facts):
    """Structs in `handles` whose single field is `&mut <Destination>`."""
    out = {}
    for name, a in facts.adts.items():
        if a['kind'] != 'struct' or not name.startswith('handles::'):
            continue
        fs = a['variants'][0]['fields']
        if len(fs) == 1 and fs[0]['ty'].startswith('&') and 'mut handles::' in fs[0]['ty'] and 'Destination<' in fs[0]['ty']:
            dest = fs[0]['ty'].split('mut ')[1].split('<')[0]
            out[name] = {'dest': dest, 'field': fs[0]['name']}
    return out


def unit_stores(facts, memo, fn, stack=()):
    """Max number of destination units stored on any path through `fn` (DESIGN B.6).
    Returns (count, detail) or raises ValueError when the shape is not understood."""
    if fn in memo:
        return memo[fn]
    b = facts.body(fn)
    if b is None:
        return 0
    if fn in stack:
        raise ValueError('recursion through %s' % fn)
    short = fn.rsplit('::', 1)[-1]
    # primitive 1: write_code_unit = one unchecked store + pos += 1
    weights = {}
    for bi, t in b.calls():
        cal = b.callee(t) or ''
        w = 0
        if cal.endswith('::get_unchecked_mut'):
            w = 1
        elif cal.endswith('::split_at_mut'):
            k = op_int(t['args'][1])
            if k is None:
                raise ValueError('%s: split_at_mut with non-constant length' % fn)
            w = k
        elif cal.endswith('::split_first_mut'):
            w = 1
        elif cal.startswith('handles::') and any(cal.startswith(d + '::') for d in DEST_TYPES):
            w = unit_stores(facts, memo, cal, stack + (fn,))
        weights[bi] = w
    # longest path over the (acyclic) CFG
    if b.back_edges():
        raise ValueError('%s has a loop; store count not bounded' % fn)
    best = {}
    order = b.rpo()
    for bi in reversed(order):
        m = 0
        for s in b.succ[bi]:
            m = max(m, best.get(s, 0))
        best[bi] = m + weights.get(bi, 0)
    memo[fn] = best.get(0, 0)
    return memo[fn]


def dest_expr_of_new(body, t):
    r = Resolver(body)
    return strip_ref(r.operand(t['args'][0]))


def is_dest_field(e, D, field):
    e = strip_ref(e)
    return e[0] == 'fld' and e[2] == field and strip_ref(e[1]) == D


def slice_of(e, D):
    """Is e (already strip_ref'd) the destination's backing slice: D.slice or D.remaining()?"""
    e = strip_ref(e)
    if is_dest_field(e, D, 'slice'):
        return 'field'
    if e[0] == 'call' and e[1] == 'handles::ByteDestination::remaining' and strip_ref(e[2][0]) == D:
        return 'remaining'
    return None


def _lin(e, D):
    """usize expression over the destination -> ({atom: coeff}, const); atoms: 'len' (backing slice / remaining()), 'pos'; None if
    anything else occurs"""
    e = strip_ref(e) if e[0] == 'ref' else e
    if e[0] == 'c' and isinstance(e[1], int):
        return {}, e[1]
    if e[0] == 'len' and slice_of(e[1], D):
        return {'len:' + slice_of(e[1], D): 1}, 0
    if is_dest_field(e, D, 'pos'):
        return {'pos': 1}, 0
    if e[0] == 'bin' and e[1] in ('Add', 'Sub'):
        a, b = _lin(e[2], D), _lin(e[3], D)
        if a is None or b is None:
            return None
        s_ = 1 if e[1] == 'Add' else -1
        out = dict(a[0])
        for k, v in b[0].items():
            out[k] = out.get(k, 0) + s_ * v
            if out[k] == 0:
                del out[k]
        return out, a[1] + s_ * b[1]
    return None


def guard_capacity(cond, truth, D, dest_ty):
    """Capacity (free units) proven by `cond == truth` for destination D, or None if the condition says nothing recognisable.

    The comparison is normalised to  L < R  or  L <= R  (whichever side, operator and polarity it was written with), both sides are
    put in linear form over the destination's length and position, and the free space  len - pos  (Utf8/Utf16Destination) or
    len(remaining) (ByteDestination) is isolated:  R - L = free + k  gives  free >= 1 - k  (strict) or  free >= -k."""
    if cond[0] == 'un' and cond[1] == 'Not':
        return guard_capacity(cond[2], not truth, D, dest_ty)
    if cond[0] == 'is_empty' and slice_of(cond[1], D) and dest_ty == 'handles::ByteDestination':
        return 1 if not truth else None
    if cond[0] != 'bin' or cond[1] not in ('Lt', 'Le', 'Gt', 'Ge', 'Eq', 'Ne'):
        return None
    op, l, r = cond[1], cond[2], cond[3]
    if op in ('Eq', 'Ne'):
        # len == 0 / len != 0 on the byte destination
        if dest_ty == 'handles::ByteDestination' and (op == 'Ne') == truth:
            a, b = _lin(l, D), _lin(r, D)
            if a is not None and b is not None and sorted([(tuple(a[0]), a[1]), (tuple(b[0]), b[1])], key=str) in (
                    [((), 0), (('len:field',), 0)], [((), 0), (('len:remaining',), 0)]):
                return 1
        return None
    # (L, R, strict) with the meaning L < R / L <= R
    if op == 'Lt':
        L, R, strict = (l, r, True) if truth else (r, l, False)
    elif op == 'Le':
        L, R, strict = (l, r, False) if truth else (r, l, True)
    elif op == 'Gt':
        L, R, strict = (r, l, True) if truth else (l, r, False)
    else:
        L, R, strict = (r, l, False) if truth else (l, r, True)
    a, b = _lin(L, D), _lin(R, D)
    if a is None or b is None:
        return None
    d = dict(b[0])
    for k, v in a[0].items():
        d[k] = d.get(k, 0) - v
        if d[k] == 0:
            del d[k]
    k0 = b[1] - a[1]
    # free space is len(remaining) for a destination kept as a shrinking slice, len(slice) - pos for one kept as slice + position;
    # either representation may be used by any destination type
    ok = d in ({'len:field': 1, 'pos': -1}, {'len:remaining': 1}) or (d == {'len:field': 1} and dest_ty not in HAS_POS)
    if not ok:
        return None
    cap = (1 - k0) if strict else -k0
    return cap if cap >= 1 else None


def mutation_points(body, D, dest_ty):
    """Positions where the destination's position/slice changes."""
    r = Resolver(body)
    out = []
    for bi, b in enumerate(body.blocks):
        for si, s in enumerate(b['s']):
            if 'assign' in s:
                p = s['assign']
                if 'deref' in p['p']:
                    flds = [pe['field'] for pe in p['p'] if isinstance(pe, dict) and 'field' in pe]
                    root = strip_ref(Resolver(body).local(p['l']))
                    if root == D and flds and flds[0] in ('pos', 'slice'):
                        out.append(((bi, si), flds[0]))
        t = b['t']
        if 'call' in t:
            cal = body.callee(t) or ''
            for a in t['args']:
                pl = op_place(a)
                if pl is None:
                    continue
                e = strip_ref(Resolver(body).operand(a))
                if e == D and cal.startswith(dest_ty + '::') and cal.rsplit('::', 1)[-1] not in READONLY_DEST_CALLS:
                    out.append(((bi, 't'), '*'))
    return out


def pos_after(body, a, b):
    """Is position b strictly after position a on some path?"""
    (ba, sa), (bb_, sb) = a, b
    if ba == bb_:
        ia = 10 ** 9 if sa == 't' else sa
        ib = 10 ** 9 if sb == 't' else sb
        if ib > ia:
            return True
    nxt = body.reach_from(body.succ[ba])
    return bb_ in nxt


HAS_POS = set()      # destination types that keep a position field (free space = len(slice) - pos)


def run(rep, facts, config='default'):
    HAS_POS.clear()
    for name_, a_ in facts.adts.items():
        if name_.startswith('handles::') and name_.endswith('Destination') and any(fd_['name'] == 'pos' for v_ in a_.get('variants', []) for fd_ in v_.get('fields', [])):
            HAS_POS.add(name_)
    H = handle_types(facts)
    rep.analysed.setdefault('handle_types', sorted(H))
    rep.floor('R-HANDLE.types', 'handle structs', len(H), 8, config)
    memo = {}

    # ---- (3) linearity: no Copy / Clone on any handle
    for h in sorted(H):
        a = facts.adts[h]
        impls = [i['trait'] for i in facts.impls if i['self'].startswith(h + '<') or i['self'] == h]
        bad = [t for t in impls if t.endswith('::Clone') or t.endswith('::Copy')]
        rep.ob('R-HANDLE.linear', h, not a.get('copy', False) and not bad,
               'handle type is Copy/Clone: a proof of space could be spent twice', sp_str(a['span']),
               {'copy': a.get('copy'), 'trait_impls': impls}, config)

    # ---- (2) cap_use per handle
    cap_use = {}
    methods = {}
    for n, b in facts.bodies.items():
        st = b.raw.get('impl_self', '')
        h = st.split('<')[0]
        if h in H and b.arg_count >= 1:
            aty = b.locals[1]['ty']
            by_value = aty.split('<')[0] == h
            try:
                k = unit_stores_handle(facts, memo, b, H[h])
            except ValueError as e:
                rep.undecidable('R-HANDLE.use', n, str(e), sp_str(b.raw['span']), config)
                continue
            methods.setdefault(h, []).append((n, k, by_value))
            if k > 0:
                rep.ob('R-HANDLE.consume', n, by_value,
                       'a storing handle method takes the handle by reference: the space proof is not consumed',
                       sp_str(b.raw['span']), {'stores': k, 'self_ty': aty}, config)
            cap_use[h] = max(cap_use.get(h, 0), k)
    rep.analysed['cap_use'] = cap_use

    # ---- (1) cap_guard at every construction site
    nsites = 0
    for n, b in sorted(facts.bodies.items()):
        for bi, t in b.calls():
            cal = b.callee(t) or ''
            h = cal[:-len('::new')] if cal.endswith('::new') else None
            if h not in H:
                continue
            nsites += 1
            dest_ty = H[h]['dest']
            key = '%s->%s' % (n, h.split('::')[-1])
            # who-may-call: only the destination / source impls in `handles`
            rep.ob('R-HANDLE.ctor-owner', key, n.startswith('handles::'),
                   'handle constructed outside module handles', site(b, bi), None, config)
            D = dest_expr_of_new(b, t)
            if D[0] != 'loc' or D[1] > b.arg_count:
                rep.undecidable('R-HANDLE.guard', key, 'destination of the handle is not a parameter: %s' % expr_str(D, b), site(b, bi), config)
                continue
            best = None
            best_S = None
            for S, label in controlling_edges(b, bi):
                truth = bool_truth(b, S, label)
                if truth is None:
                    continue
                rs = Resolver(b)
                rs.cur = (S, 't')
                cond = rs.operand(b.blocks[S]['t']['switch'])
                cap = guard_capacity(cond, truth, D, dest_ty)
                if cap is None:
                    continue
                # staleness: no mutation of what the guard read between the read and the construction
                muts = mutation_points(b, D, dest_ty)
                stale = []
                for (lp, lroot, lfld) in rs.loads:
                    if lp is None:
                        lp = (S, 't')
                    for (mp, mf) in muts:
                        if (mf == '*' or lfld == '*' or mf == lfld or (mf == 'slice' and lfld in ('slice',))) and \
                                pos_after(b, lp, mp) and pos_after(b, mp, (bi, 't')):
                            stale.append((lp, mp, mf))
                # calls through remaining(): the load is the call itself
                for e in walk(cond):
                    if e[0] == 'call' and e[1] == 'handles::ByteDestination::remaining':
                        lp = (e[3], 't')
                        for (mp, mf) in muts:
                            if pos_after(b, lp, mp) and pos_after(b, mp, (bi, 't')):
                                stale.append((lp, mp, mf))
                if stale:
                    rep.ob('R-HANDLE.guard-fresh', key, False,
                           'the destination changes between the space test and the handle construction: %s' % stale[:2],
                           site(b, bi), None, config)
                    continue
                if best is None or cap > best:
                    best, best_S = cap, S
            need = cap_use.get(h, 0)
            if best is None and n in KERNEL_CONTRACT_SITES and KERNEL_CONTRACT_SITES[n][1] == h:
                ok, why = kernel_contract_site(b, bi, t, D, dest_ty, KERNEL_CONTRACT_SITES[n][0])
                rep.ob('R-HANDLE.guard', key, ok and need <= 1,
                       'kernel-contract exception no longer has the confirmed shape: %s' % why, site(b, bi),
                       {'cap_guard': 1, 'cap_use': need, 'by': 'contract of ' + KERNEL_CONTRACT_SITES[n][0]}, config)
                continue
            if best is None:
                rep.ob('R-HANDLE.guard', key, False,
                       'no recognised space test dominates this handle construction (cap_use=%d)' % need,
                       site(b, bi), None, config)
                continue
            if not hasattr(rep, 'guards'):
                rep.guards = {}
            rep.guards[(config, key)] = (best, dest_ty, site(b, bi))
            rep.ob('R-HANDLE.guard', key, need <= best,
                   'space test proves %d unit(s) but %s can store %d' % (best, h, need),
                   site(b, bi), {'cap_guard': best, 'cap_use': need, 'guard_at': site(b, best_S)}, config)
    rep.floor('R-HANDLE.guard', 'handle construction sites', nsites, 17, config)

    # ---- (4) who may reach the storing primitives
    storing = {}
    for n, b in facts.bodies.items():
        st = b.raw.get('impl_self', '').split('<')[0]
        if st in DEST_TYPES:
            try:
                k = unit_stores(facts, memo, n)
            except ValueError as e:
                k = None
            if k:
                storing[n] = k
    nun = 0
    for n, b in facts.bodies.items():
        for bi, t in b.calls():
            cal = b.callee(t) or ''
            if cal.endswith('::get_unchecked_mut') and n.startswith('handles::'):
                nun += 1
                rep.ob('R-HANDLE.unchecked-owner', n, n.endswith('Destination::write_code_unit'),
                       'unchecked store in handles outside write_code_unit', site(b, bi), None, config)
            if cal in storing:
                caller_self = b.raw.get('impl_self', '').split('<')[0]
                ok = caller_self in H and H[caller_self]['dest'] == cal.rsplit('::', 1)[0]
                ok = ok or (caller_self == cal.rsplit('::', 1)[0] and n in storing)
                rep.ob('R-HANDLE.store-caller', '%s->%s' % (n, cal.rsplit('::', 1)[-1]), ok,
                       'a storing destination method is called without going through a handle',
                       site(b, bi), None, config)
    rep.floor('R-HANDLE.unchecked-owner', 'unchecked stores in handles', nun, 2, config)
    # write_code_unit shape: exactly one unchecked store at self.pos, then pos += 1
    for d in ('handles::Utf8Destination', 'handles::Utf16Destination'):
        b = facts.body(d + '::write_code_unit')
        if b is None:
            rep.undecidable('R-HANDLE.wcu', d, 'write_code_unit not found', None, config)
            continue
        ok, why = write_code_unit_shape(b)
        rep.ob('R-HANDLE.wcu', d, ok, why, sp_str(b.raw['span']), {'shape': 'slice[pos] = u; pos += 1'}, config)
    # ByteDestination::write_N: every byte of the split-off prefix is stored (indices 0..k-1, each once)
    for n, b in sorted(facts.bodies.items()):
        if not n.startswith('handles::ByteDestination::write_'):
            continue
        ks = [op_int(t['args'][1]) for bi, t in b.calls() if (b.callee(t) or '').endswith('::split_at_mut')]
        firsts = [1 for bi, t in b.calls() if (b.callee(t) or '').endswith('::split_first_mut')]
        if not ks and not firsts:
            continue
        k = ks[0] if ks else 1
        idxs = []
        r = Resolver(b)
        for blk in b.blocks:
            for st in blk['s']:
                if 'assign' in st and st['assign']['p'] and st['assign']['p'][0] == 'deref':
                    ix = [e for e in st['assign']['p'] if isinstance(e, dict) and 'index' in e]
                    fl = [e for e in st['assign']['p'] if isinstance(e, dict) and 'field' in e]
                    if fl:
                        continue
                    if ix:
                        v = r.local(ix[0]['index'])
                        idxs.append(v[1] if v[0] == 'c' else None)
                    elif len(st['assign']['p']) == 1 and b.locals[st['assign']['l']]['ty'].endswith('mut u8'):
                        idxs.append(0)
        rep.ob('R-HANDLE.full-store', n, sorted(x for x in idxs if x is not None) == list(range(k)) and None not in idxs,
               'the %d bytes split off the destination are not each stored exactly once (stored indices %r): the reported count would cover a byte the call did not write' % (k, idxs),
               sp_str(b.raw['span']), {'split': k, 'stored_indices': idxs}, config)
    return cap_use


def unit_stores_handle(facts, memo, body, hinfo):
    """Stores performed by a handle method = those of the destination methods it calls."""
    total = {}
    if body.back_edges():
        raise ValueError('loop in handle method')
    weights = {}
    for bi, t in body.calls():
        cal = body.callee(t) or ''
        if cal.startswith(hinfo['dest'] + '::'):
            weights[bi] = unit_stores(facts, memo, cal)
    best = {}
    for bi in reversed(body.rpo()):
        m = 0
        for s in body.succ[bi]:
            m = max(m, best.get(s, 0))
        best[bi] = m + weights.get(bi, 0)
    return best.get(0, 0)


def write_code_unit_shape(b):
    r = Resolver(b)
    stores = []
    posinc = []
    for bi, blk in enumerate(b.blocks):
        for si, s in enumerate(blk['s']):
            if 'assign' in s and 'deref' in s['assign']['p']:
                p = s['assign']
                flds = [pe['field'] for pe in p['p'] if isinstance(pe, dict) and 'field' in pe]
                if flds == ['pos']:
                    posinc.append(r.rvalue(s['rv']))
                elif not flds:
                    stores.append((bi, p['l']))
    if len(stores) != 1:
        return False, 'expected exactly one raw store, found %d' % len(stores)
    bi, l = stores[0]
    e = r.local(l)
    if not (e[0] == 'call' and e[1].endswith('::get_unchecked_mut')):
        return False, 'store target is not get_unchecked_mut'
    idx = e[2][1]
    if not (idx[0] == 'fld' and idx[2] == 'pos'):
        return False, 'unchecked index is not self.pos'
    if len(posinc) != 1:
        return False, 'expected exactly one pos update'
    pi = posinc[0]
    if not (pi[0] == 'bin' and pi[1] == 'Add' and pi[2][0] == 'fld' and pi[2][2] == 'pos' and pi[3] == ('c', 1, 'usize')):
        return False, 'pos is not advanced by exactly 1'
    return True, ''


def kernel_contract_site(b, bi, t, D, dest_ty, kernel):
    """The `new` site lies in the Some-arm of `kernel(src_remaining, dst_remaining)` where
    dst_remaining is the destination's remaining slice, and the destination was advanced by
    exactly the `consumed` component of that result and by nothing else."""
    r = Resolver(b)
    ksites = [(ki, kt) for ki, kt in b.calls() if b.callee(kt) == kernel]
    if len(ksites) != 1:
        return False, 'expected one call of %s' % kernel
    ki, kt = ksites[0]
    res_local = kt['dest']['l']
    some_edge = None
    for S, label in controlling_edges(b, bi):
        tt = b.blocks[S]['t']
        if tt.get('discr_of') and tt['discr_of']['l'] == res_local and variant_of_edge(b, S, label) == 'Some':
            some_edge = S
    if some_edge is None:
        return False, 'site is not in the Some arm of the kernel result'
    # destination slice argument of the kernel
    dst_arg = strip_ref(r.operand(kt['args'][1]))
    ok_dst = False
    if dst_arg[0] == 'call' and dst_arg[1] == 'handles::ByteDestination::remaining' and strip_ref(dst_arg[2][0]) == D:
        ok_dst = True
    if dst_arg[0] == 'call' and 'index_mut' in dst_arg[1]:
        base = strip_ref(dst_arg[2][0])
        rng = dst_arg[2][1]
        if is_dest_field(base, D, 'slice') and rng[0] == 'agg' and 'RangeFrom' in rng[1] and is_dest_field(rng[2][0], D, 'pos'):
            ok_dst = True
    if not ok_dst:
        return False, 'kernel destination is not the remaining slice of the handle\'s destination'
    # advances between the kernel call and the site: exactly one, by `consumed` = (res as Some).0.1
    muts = [m for m in mutation_points(b, D, dest_ty) if pos_after(b, (ki, 't'), m[0]) and pos_after(b, m[0], (bi, 't'))]
    if len(muts) != 1:
        return False, 'expected exactly one advance between kernel and handle, found %d' % len(muts)
    (mb, ms), mf = muts[0]
    if ms == 't':
        amt = r.operand(b.blocks[mb]['t']['args'][1])
        if not b.callee(b.blocks[mb]['t']).endswith('::advance'):
            return False, 'unexpected destination call between kernel and handle'
    else:
        rv = r.rvalue(b.blocks[mb]['s'][ms]['rv'])
        if not (rv[0] == 'bin' and rv[1] == 'Add' and is_dest_field(rv[2], D, 'pos')):
            return False, 'advance is not pos + consumed'
        amt = rv[3]
    want = ('fld', ('fld', ('as', r.local(res_local), 'Some'), '0'), '1')
    if amt != want:
        return False, 'advance amount is not the kernel\'s consumed count: %s' % expr_str(amt, b)
    return True, ''
