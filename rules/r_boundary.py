"""R-BOUNDARY — the UTF-8 destination position only ever advances to a character boundary.

Every assignment to Utf8Destination.pos is `pos + X`.  X must be one of the shapes whose boundary property is decided elsewhere:
  1                                  one code unit inside write_code_unit (sequences: R-UTF8STORE / C05-D4)
  utf8_valid_up_to(S)                the validator's own answer for the slice that is copied (C14) — not a value derived from it
  (ascii_to_ascii(..) as Some).0.1   units the ASCII kernel copied (all ASCII)
  the min-select length              in the None arm of the ASCII kernel (everything copied was ASCII)
  convert_unaligned_utf16_to_utf8(..).1   bytes written by the UTF-16 -> UTF-8 converter (complete sequences: R-UTF8STORE)
Anything else (for instance a validator answer clamped afterwards to the free space) can leave the position inside a character.
"""
from mirlib import *
from shape import add_terms


def classify(x, b, bi):
    if x == ('c', 1, 'usize'):
        return 'one code unit'
    if x[0] == 'len':
        # the length of a prefix cut at k is k: s.split_at(k).0.len(), s[..k].len()
        y = strip_ref(x[1])
        while y[0] in ('deref', 'ref'):
            y = strip_ref(y[1])
        if y[0] == 'fld' and y[2] == '0' and y[1][0] == 'call' and (y[1][1] or '').endswith('::split_at') and len(y[1][2]) == 2:
            return classify(y[1][2][1], b, bi)
        if y[0] == 'call' and 'index' in (y[1] or '').rsplit('::', 1)[-1] and len(y[2]) == 2 and y[2][1][0] == 'agg' and y[2][1][1].endswith('RangeTo::RangeTo'):
            return classify(y[2][1][2][0], b, bi)
    if x[0] == 'call' and x[1] == 'utf_8::utf8_valid_up_to':
        return 'validator answer'
    if x[0] == 'fld' and x[2] == '1':
        y = x[1]
        if y[0] == 'fld' and y[2] == '0' and y[1][0] == 'as' and y[1][2] == 'Some' and y[1][1][0] == 'call' and y[1][1][1] == 'ascii::ascii_to_ascii':
            return 'ASCII kernel count'
        if y[0] == 'call' and y[1] == 'handles::convert_unaligned_utf16_to_utf8':
            return 'UTF-16 -> UTF-8 converter count'
        if y[0] == 'loc':
            ds = b.defs.get(y[1], [])
            r = Resolver(b)
            ok = len(ds) >= 1 and all(d[2] == 'assign' and d[3]['rv'].get('aggregate') == 'tuple' and r.operand(d[3]['rv']['ops'][1])[0] == 'len' for d in ds)
            none_arm = any(k == 'variant' and v == 'None' and e[0] == 'call' and e[1] == 'ascii::ascii_to_ascii' for k, e, v, S in block_conditions(b, bi, r))
            if ok and none_arm:
                return 'min-select length in the all-ASCII arm'
    return None


def run(rep, f, c, rule='R-BOUNDARY'):
    n = 0
    for name, b in sorted(f.bodies.items()):
        if not name.startswith('handles::Utf8Destination::'):
            continue
        r = Resolver(b)
        for bi, blk in enumerate(b.blocks):
            for st in blk['s']:
                if 'assign' not in st:
                    continue
                pl = st['assign']
                if not (pl['l'] == 1 and pl['p'] and pl['p'][0] == 'deref' and any(isinstance(e, dict) and e.get('field') == 'pos' for e in pl['p'])):
                    continue
                v = r.rvalue(st['rv'])
                n += 1
                kind = None
                if v[0] == 'bin' and v[1] == 'Add':
                    for a, x in ((v[2], v[3]), (v[3], v[2])):
                        if a[0] == 'fld' and a[2] == 'pos' and strip_ref(a[1]) in (('deref', ('loc', 1)), ('loc', 1)):
                            kind = classify(x, b, bi)
                rep.ob(rule, '%s:pos+=%s' % (name, kind or 'unrecognised'), kind is not None,
                       'the UTF-8 destination position advances by a quantity that is not a boundary-preserving count (one code unit, the validator\'s own answer, '
                       'an ASCII-kernel count, the converter\'s written count): %s' % expr_str(v, b)[:160], sp_str(st['sp']), {'kind': kind}, c)
    rep.floor(rule, 'assignments to Utf8Destination.pos', n, 7, c)
    return n
