"""R-OFPANIC — OutputFull is never turned into a panic for a caller that respects the documented minimum sink (DESIGN.md §5,
instance class (iii): replay of withheld BOM look-alike bytes).

The BOM replay helpers feed a constant array A of withheld bytes to the variant decoder with the caller's whole sink and
panic if that reports OutputFull.  With the documented minimum M (4 bytes UTF-8, 2 units UTF-16):
  |A| = 1: safe iff every variant's per-byte space test demands <= M.
  |A| = 2: safe iff for every variant v:  maxwrite_v(A[0]) + cap_v <= M, where cap_v is what v's space test demands before
           the second byte and maxwrite_v(A[0]) is what processing A[0] from the initial state can store (0 if A[0] is a
           lead byte or an error for v) — both extracted from the variant's MIR."""
from mirlib import *
from ranges import *
from paths import *
import r_handle, r_decclass

M = {'utf8': 4, 'utf16': 2}
DEST = {'utf8': 'handles::Utf8Destination', 'utf16': 'handles::Utf16Destination'}
BYTE = ISet.of((0, 255))


def initial_fields(f, ty):
    """{field: const | variant-name} from the decoder's constructor aggregate."""
    out = {}
    for name, b in f.bodies.items():
        if not name.startswith(ty + '::new'):
            continue
        r = Resolver(b)
        for blk in b.blocks:
            for st in blk['s']:
                if 'assign' in st and 'aggregate' in st['rv'] and isinstance(st['rv']['aggregate'], dict) and st['rv']['aggregate'].get('adt') == ty:
                    for fld, o in zip(st['rv']['aggregate']['fields'], st['rv']['ops']):
                        v = r.operand(o)
                        if v[0] == 'c':
                            out[fld] = v[1]
                        elif v[0] == 'agg':
                            out[fld] = variant_name_(v)
    return out


def variant_name_(e):
    return e[1].rsplit('::', 1)[-1] if e[0] == 'agg' and '::' in e[1] else None


def initial_state_ok(b, bi, init, r):
    """False if a controlling condition of block bi on a self field contradicts the constructor's initial values."""
    for k, e, v, S in block_conditions(b, bi, r):
        if k == 'variant' and e[0] == 'fld' and e[1] == ('deref', ('loc', 1)) and e[2] in init:
            iv = init[e[2]]
            if isinstance(iv, str) and v is not None and not isinstance(v, tuple) and iv != v:
                return False
            if isinstance(iv, str) and isinstance(v, tuple) and iv not in v:
                return False
        if k == 'bool' and e[0] == 'bin' and e[1] in ('Eq', 'Ne') and e[2][0] == 'fld' and e[2][1] == ('deref', ('loc', 1)) and e[2][2] in init and e[3][0] == 'c':
            iv = init[e[2][2]]
            if isinstance(iv, int):
                holds = (iv == e[3][1]) if e[1] == 'Eq' else (iv != e[3][1])
                if holds != v:
                    return False
        if k == 'bool' and e[0] == 'fld' and e[1] == ('deref', ('loc', 1)) and e[2] in init and isinstance(init[e[2]], int):
            if bool(init[e[2]]) != v:
                return False
    return True


def variant_profile(f, ty, sink, guards, cap_use, c):
    """(cap_v, writes) where writes = {byte value class: max units} for the first byte from the initial state."""
    fn = '%s::decode_to_%s_raw' % (ty, sink)
    b = f.body(fn)
    if b is None:
        return None
    r = Resolver(b)
    caps = []
    for bi, t in b.calls():
        cal = b.callee(t) or ''
        if cal.startswith(DEST[sink] + '::') and ('check_space_' in cal):
            for (cfg, key), (cap, dty, at) in guards.items():
                if cfg == c and key.startswith(cal + '->'):
                    caps.append(cap)
    init = initial_fields(f, ty)
    wr = {}
    sites = r_decclass.fetch_sites(b)
    # the first byte of a stream is classified by the lead-byte logic: the `non_ascii` hand-over of the ASCII fast path when the
    # decoder has one, otherwise its single read site (in the constructor's initial state)
    if any(s_[0] == 'non_ascii' for s_ in sites):
        sites = [s_ for s_ in sites if s_[0] == 'non_ascii']
    for kind, entry, xk, dom, rbi in sites:
        entries = entry if isinstance(entry, list) else [entry]
        reads = {bi for bi, t in b.calls() if (b.callee(t) or '').endswith(('ByteReadHandle::read', 'ByteSource::check_available'))
                 or 'copy_ascii_from' in (b.callee(t) or '') or 'copy_utf' in (b.callee(t) or '')}
        ra = RangeAnalysis(f, b, xk, 8, dom, entries=entries, stop=reads - set(entries), opaque_ok=True, N=256)
        for bi, t in b.calls():
            cal = b.callee(t) or ''
            if 'Handle::write_' in cal and cal.startswith('handles::'):
                reach = ra.reach_of(bi) & dom
                if not reach or not initial_state_ok(b, bi, init, r):
                    continue
                h = cal.rsplit('::', 1)[0]
                units = r_handle.unit_stores_handle(f, {}, f.body(cal), r_handle.handle_types(f)[h]) if f.body(cal) is not None and h in r_handle.handle_types(f) else cap_use.get(h, 0)
                for lo, hi in reach.iv:
                    for x in (0xEF, 0xFE, 0xFF, 0xBB):
                        if lo <= x <= hi:
                            wr[x] = max(wr.get(x, 0), units)
    return (max(caps) if caps else None), wr, fn


def run(rep, f, c, rule):
    cap_use = r_handle.run(rep, f, c)
    guards = getattr(rep, 'guards', {})
    vd = f.adts.get('variant::VariantDecoder')
    if vd is None:
        rep.undecidable(rule, 'variant::VariantDecoder', 'not found', None, c)
        return
    tys = [v['fields'][0]['ty'].split('<')[0] for v in vd['variants']]
    n = 0
    for sink in ('utf8', 'utf16'):
        prof = {}
        for ty in tys:
            p = variant_profile(f, ty, sink, guards, cap_use, c)
            if p is not None:
                prof[ty] = p
        rep.analysed['variant_profiles:%s:%s' % (c, sink)] = {ty: {'cap': p[0], 'first_byte_writes': {'%02X' % k: v for k, v in p[1].items()}} for ty, p in prof.items()}
        for helper, A in (('Decoder::decode_to_%s_after_one_potential_bom_byte' % sink, None), ('Decoder::decode_to_%s_after_two_potential_bom_bytes' % sink, (0xEF, 0xBB))):
            b = f.body(helper)
            if b is None:
                rep.undecidable(rule, helper, 'not found', None, c)
                continue
            # does the OutputFull arm of the replay diverge?
            panics = False
            for p in region_paths(b, 0):
                if p.end[0] == 'diverge' and any(e[1][0] == 'variant' and e[2] == 'OutputFull' for e in p.conds()) and \
                        any((x[1] or '').endswith('panic_fmt') or 'panic' in (x[1] or '') for x in p.calls()):
                    panics = True
            if not panics:
                rep.ob(rule, helper, True, '', sp_str(b.raw['span']), {'output_full': 'reported, not a panic'}, c)
                n += 1
                continue
            bad = []
            for ty, (cap, wr, fn) in sorted(prof.items()):
                if cap is None:
                    # hand-written body without handle space tests (replacement): its own thresholds are checked by R-PROGRESS.b
                    continue
                if A is None:
                    if cap > M[sink]:
                        bad.append('%s demands %d' % (ty, cap))
                else:
                    w = wr.get(A[0], 0)
                    if w + cap > M[sink]:
                        bad.append('%s: byte %02X can store %d unit(s), then the test before %02X demands %d more (> %d)' % (ty.split('::')[-1], A[0], w, A[1], cap, M[sink]))
            n += 1
            rep.ob(rule, helper, not bad,
                   'replaying the withheld byte(s) into a documented-minimum sink (%d) can report OutputFull, which this helper turns into '
                   'panic!("Output buffer must have been too small."): %s' % (M[sink], '; '.join(bad)[:300]), sp_str(b.raw['span']),
                   {'minimum': M[sink], 'replayed': 'one byte' if A is None else 'EF BB'}, c)
    rep.floor(rule, 'BOM replay panic sites', n, 4, c)
