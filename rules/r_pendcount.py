"""R-PENDCOUNT — Pending::count() agrees with the number of bytes the decoder has actually taken for the unfinished sequence.

EUC-JP and gb18030 keep an unfinished multi-byte sequence in an enum and report `pending.count()` as the length of the malformed
sequence when the stream ends there (and use it in the buffer-length queries).  count() is read as a variant -> constant map
from its MIR.  In the decode bodies, every path from a loop head to `return InputEmpty` whose last store to `self.pending` is a
non-None variant V is summarised; with r the number of byte reads on that path, count(V) - r is the number of bytes of the
sequence that were already in hand at that loop head (the non-ASCII byte handed over by the ASCII fast path): it must be the
same for every such path from the same head, and 0 or 1.
"""
from mirlib import *
from paths import *
from shape import variant_name

SELF = ('deref', ('loc', 1))
TARGETS = [('euc_jp::EucJpDecoder', 'euc_jp::EucJpPending::count'), ('gb18030::Gb18030Decoder', 'gb18030::Gb18030Pending::count')]


def count_map(f, fn):
    b = f.body(fn)
    if b is None:
        return None
    out = {}
    for p in region_paths(b, 0):
        if p.end[0] != 'return':
            continue
        rv = p.env.get(0)
        vs = [e[2] for e in p.events if e[0] == 'cond' and isinstance(e[1], tuple) and e[1][0] == 'variant']
        if rv is None or rv[0] != 'c' or len(vs) != 1:
            return None
        for v in (vs[0] if isinstance(vs[0], tuple) else (vs[0],)):
            out[v] = rv[1]
    return out


def run(rep, f, c, rule='R-PENDCOUNT'):
    n = 0
    for D, cfn in TARGETS:
        cm = count_map(f, cfn)
        if not cm:
            rep.undecidable(rule, cfn, 'count() is not a variant -> constant map', None, c)
            continue
        for sink in ('utf8', 'utf16'):
            fn = '%s::decode_to_%s_raw' % (D, sink)
            b = f.body(fn)
            if b is None:
                rep.undecidable(rule, fn, 'decode body not found', None, c)
                continue
            heads = set(loop_heads(b))
            per_head = {}
            try:
                for h in [0] + sorted(heads):
                    for blks, end in enumerate_block_paths(b, h, stop=heads):
                        if end[0] != 'return':
                            continue
                        p = summarize(b, blks, end)
                        rv = p.env.get(0)
                        if rv is None or rv[0] != 'agg' or not rv[2] or variant_name(rv[2][0]) != 'InputEmpty':
                            continue
                        st = [e for e in p.events if e[0] == 'store' and strip_ref(e[1]) == ('fld', SELF, 'pending')]
                        if not st:
                            continue
                        V = variant_name(st[-1][2])
                        if V in (None, 'None'):
                            continue
                        reads = sum(1 for e in p.events if e[0] == 'call' and (e[1] or '').endswith('ReadHandle::read'))
                        per_head.setdefault(h, []).append((V, reads, st[-1][3]))
            except OverflowError:
                rep.undecidable(rule, fn, 'path bound exceeded', None, c)
                continue
            for h, items in sorted(per_head.items()):
                diffs = {}
                for V, reads, bb in items:
                    if V not in cm:
                        rep.undecidable(rule, '%s:%s' % (fn, V), 'variant without a count() arm', None, c)
                        continue
                    diffs.setdefault(cm[V] - reads, []).append((V, reads, bb))
                n += 1
                ok = len(diffs) == 1 and list(diffs)[0] in (0, 1)
                detail = '; '.join('%s: count()=%d after %d read(s)' % (V, cm[V], reads) for d_ in sorted(diffs) for V, reads, bb in diffs[d_][:2])
                rep.ob(rule, '%s:head#%d' % (fn, sorted(per_head).index(h)), ok,
                       'Pending::count() disagrees with the bytes taken for the unfinished sequence (bytes in hand at the loop head would have to differ between paths): ' + detail,
                       sp_str(b.blocks[items[0][2]]['tsp']), {'variants': sorted({V for V, _, _ in items}), 'count': {k: v for k, v in cm.items()}}, c)
    rep.floor(rule, 'loop heads with pending stores checked', n, 2, c)
    return n
