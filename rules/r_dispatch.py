"""R-DISPATCH — generated dispatch tables agree (DESIGN.md §5)."""
from mirlib import *

# confirmed wildcard arms (DESIGN.md Appendix D)
WILDCARD_OK = {
    'variant::VariantEncoder::has_pending_state': 'only ISO-2022-JP has encoder state',
}


def dispatch(rep, f, c, rule='R-DISPATCH'):
    """Every arm of every VariantDecoder / VariantEncoder method calls the same-named method of the arm's payload
    with the method's own arguments, and returns its result."""
    n = 0
    for name, b in sorted(f.bodies.items()):
        st = b.raw.get('impl_self', '')
        meth = name.rsplit('::', 1)[-1]
        if st not in ('variant::VariantDecoder', 'variant::VariantEncoder'):
            # free-function dispatchers in `variant` (e.g. the multiversioned decode_to_utf16_raw_impl)
            enums = {blk['t'].get('enum') for blk in b.blocks if blk['t'].get('enum') in ('variant::VariantDecoder', 'variant::VariantEncoder')}
            if not (name.startswith('variant::') and b.kind == 'fn' and len(enums) == 1):
                continue
            st = enums.pop()
            if meth.endswith('_impl'):
                meth = meth[:-5]
        elif len(b.blocks) <= 3 and len(list(b.calls())) == 1:
            # thin forwarder to a free-function dispatcher: must pass its own parameters through unchanged
            bi, t = list(b.calls())[0]
            r0 = Resolver(b)
            fw = [strip_ref(r0.operand(a)) for a in t['args']] == [('loc', i) for i in range(1, b.arg_count + 1)]
            cal0 = b.callee(t) or ''
            rep.ob(rule + '.forward', name, fw and cal0 == 'variant::' + meth + '_impl' and t['dest']['l'] == 0,
                   'forwarder does not pass (self, args…) unchanged to variant::%s_impl' % meth, sp_str(b.raw['span']), {'callee': cal0}, c)
            continue
        adt = f.adts[st]
        sw = [bi for bi, blk in enumerate(b.blocks) if blk['t'].get('enum') == st]
        site = sp_str(b.raw['span'])
        if meth in ('latin1_byte_compatible_up_to',):
            continue   # per-variant table, checked by C19
        if len(sw) != 1:
            rep.undecidable(rule, name, 'expected exactly one match on the variant, found %d' % len(sw), site, c)
            continue
        S = sw[0]
        listed = {}
        for lab, tgt in switch_edges(b, S):
            v = variant_of_edge(b, S, lab)
            if lab == 'else':
                # otherwise-edge: either unreachable or a wildcard arm
                if 'unreachable' in b.blocks[tgt]['t']:
                    continue
                rep.ob(rule + '.no-wildcard', name, name in WILDCARD_OK, 'wildcard arm in a variant dispatcher', site, None, c)
                continue
            listed[v] = tgt
        names = {v['name'] for v in adt['variants']}
        if name not in WILDCARD_OK:
            rep.ob(rule + '.exhaustive', name, set(listed) == names, 'arms %r do not cover the variants %r explicitly' % (sorted(listed), sorted(names)), site, None, c)
        for v, tgt in sorted(listed.items()):
            # follow straight-line code to the first call
            x = tgt
            seen = set()
            call = None
            while x not in seen:
                seen.add(x)
                t = b.blocks[x]['t']
                if 'call' in t:
                    call = (x, t)
                    break
                if len(b.succ[x]) != 1:
                    break
                x = b.succ[x][0]
            n += 1
            if call is None:
                rep.ob(rule + '.arm', '%s:%s' % (name, v), name in WILDCARD_OK, 'arm does not call its payload', site, None, c)
                continue
            x, t = call
            cal = b.callee(t) or ''
            r = Resolver(b)
            recv = strip_ref(r.operand(t['args'][0]))
            payload_ok = recv[0] == 'fld' and recv[1][0] == 'as' and recv[1][2] == v
            # payload type of this variant
            vt = [vv for vv in adt['variants'] if vv['name'] == v][0]['fields'][0]['ty'].split('<')[0]
            same_name = cal == vt + '::' + meth
            # remaining arguments are the method's own parameters, in order
            rest = [strip_ref(r.operand(a)) for a in t['args'][1:]]
            params_ok = rest == [('loc', i) for i in range(2, b.arg_count + 1)]
            # result returned unchanged
            ret_ok = t['dest']['l'] == 0 or r.local(0) == r.local(t['dest']['l'])
            if not ret_ok:
                ds = [d for d in b.defs.get(0, []) if d[0] in b.reach_from([x])]
                ret_ok = any(d[2] == 'assign' and r.rvalue(d[3]['rv']) == r.local(t['dest']['l']) for d in ds) or b.raw['ret'] == '()'
            rep.ob(rule + '.arm', '%s:%s' % (name, v), payload_ok and same_name and params_ok and ret_ok,
                   'arm %s calls %s (expected %s::%s on its own payload with the method\'s arguments, result returned)' % (v, cal, vt, meth),
                   sp_str(b.blocks[x]['tsp']), {'callee': cal}, c)
    rep.floor(rule + '.arm', 'dispatcher arms', n, 92, c)
