"""C05-D4 — the UTF-8 / UTF-16 writers of handles.rs emit only well-formed sequences: for every scalar value in the
writer's documented domain the stored code units, evaluated as exact piecewise functions of the argument, lie in the
ranges of Unicode Table 3-7 (joint constraints on lead and second byte included)."""
from mirlib import *
from paths import *
from ranges import *

# Unicode Standard Table 3-7: lead range -> (second byte range); further bytes 80..BF
T37 = [((0xC2, 0xDF), (0x80, 0xBF), 2), ((0xE0, 0xE0), (0xA0, 0xBF), 3), ((0xE1, 0xEC), (0x80, 0xBF), 3), ((0xED, 0xED), (0x80, 0x9F), 3),
       ((0xEE, 0xEF), (0x80, 0xBF), 3), ((0xF0, 0xF0), (0x90, 0xBF), 4), ((0xF1, 0xF3), (0x80, 0xBF), 4), ((0xF4, 0xF4), (0x80, 0x8F), 4)]

# writer -> (argument domain, number of units); documented by the debug_assert!s in the writers and by "decoders never produce surrogates"
UTF8_WRITERS = {
    'write_mid_bmp': (ISet.of((0x80, 0x7FF)), 16),
    'write_upper_bmp': (ISet.of((0x800, 0xD7FF), (0xE000, 0xFFFF)), 16),
    'write_astral': (ISet.of((0x10000, 0x10FFFF)), 32),
}


def unit_values(f, b, xbits, dom, N):
    """AVs of the values passed to write_code_unit, in order (single-path bodies)."""
    ps = [p for p in region_paths(b, 0) if p.end[0] == 'return']
    ps = [p for p in ps if not any(e[1] == ('c', 1, 'bool') and e[2] is False for e in p.conds())]
    # debug_assert! expansions fork paths; the stores are the same on all returning paths
    seqs = set()
    for p in ps:
        seqs.add(tuple(e[2][1] for e in p.calls('::write_code_unit')))
    if len(seqs) != 1:
        return None
    ra = RangeAnalysis.__new__(RangeAnalysis)
    ra.facts, ra.body, ra.xkeys, ra.xbits, ra.N, ra.dom = f, b, {('loc', 2)}, xbits, N, dom
    ra.env, ra.depth, ra.res, ra.reach, ra.mixed, ra.opaque, ra.panics = {}, 0, Resolver(b), {}, [], [], {}
    ra.acyclic, ra._phi_guard, ra.entries, ra.stop, ra.ptrmap = False, set(), [], set(), None
    ra._rd_guard, ra._rd_cache, ra.cur_block, ra.opaque_ok, ra.opaque_x = set(), {}, None, False, []
    return [ra.ev(e) for e in seqs.pop()]


def piece_value_range(p):
    lo, hi, k, a = p
    if k == 'c':
        return a, a
    if k == 'x':
        return lo + a, hi + a
    return None


def restrict(av, dom):
    out = []
    for lo, hi, k, a in av.pieces:
        for dl, dh in dom.iv:
            l2, h2 = max(lo, dl), min(hi, dh)
            if l2 <= h2:
                out.append((l2, h2, k, a))
    return out


def run(rep, f, c, rule):
    n = 0
    for w, (dom, bits) in sorted(UTF8_WRITERS.items()):
        fn = 'handles::Utf8Destination::' + w
        b = f.body(fn)
        if b is None:
            rep.undecidable(rule, fn, 'writer not found', None, c)
            continue
        site = sp_str(b.raw['span'])
        N = dom.iv[-1][1] + 1
        vals = unit_values(f, b, bits, dom, N)
        if vals is None:
            rep.undecidable(rule, fn, 'stores differ between paths', site, c)
            continue
        n += 1
        # common refinement over the domain
        cuts = set()
        for v in vals:
            for lo, hi, k, a in restrict(v, dom):
                cuts.add(lo)
                cuts.add(hi + 1)
        cuts = sorted(cuts)
        bad = None
        checked = 0
        ptr = [0] * len(vals)
        for i in range(len(cuts) - 1):
            lo, hi = cuts[i], cuts[i + 1] - 1
            if not any(dl <= lo and hi <= dh for dl, dh in dom.iv):
                continue
            rng = []
            for vi, v in enumerate(vals):
                ps = v.pieces
                j = ptr[vi]
                while j < len(ps) and ps[j][1] < lo:
                    j += 1
                ptr[vi] = j
                pr = None
                if j < len(ps) and ps[j][0] <= lo and hi <= ps[j][1]:
                    p = ps[j]
                    if p[2] == 'c':
                        pr = (p[3], p[3])
                    elif p[2] == 'x':
                        pr = (lo + p[3], hi + p[3])
                rng.append(pr)
            checked += 1
            if any(r_ is None for r_ in rng):
                bad = 'unit value not decidable for x in %X-%X' % (lo, hi)
                break
            lead = rng[0]
            row = [r_ for r_ in T37 if r_[0][0] <= lead[0] and lead[1] <= r_[0][1]]
            if len(row) != 1 or row[0][2] != len(rng):
                bad = 'x in %X-%X: lead byte range %X-%X with %d units is not a row of Table 3-7' % (lo, hi, lead[0], lead[1], len(rng))
                break
            sec = rng[1]
            if not (row[0][1][0] <= sec[0] and sec[1] <= row[0][1][1]):
                bad = 'x in %X-%X: second byte %X-%X not allowed after lead %X-%X' % (lo, hi, sec[0], sec[1], lead[0], lead[1])
                break
            for r_ in rng[2:]:
                if not (0x80 <= r_[0] and r_[1] <= 0xBF):
                    bad = 'x in %X-%X: continuation byte %X-%X outside 80-BF' % (lo, hi, r_[0], r_[1])
                    break
            if bad:
                break
        rep.ob(rule, fn, bad is None and checked > 0, bad or '', site, {'units': len(vals), 'pieces_checked': checked, 'domain': repr(dom)}, c)
    # dispatchers: write_bmp / write_bmp_excl_ascii route each range to the writer whose domain contains it
    for w, dom, routes in (('write_bmp', ISet.of((0, 0xD7FF), (0xE000, 0xFFFF)), {'write_ascii': ISet.of((0, 0x7F)), 'write_mid_bmp': UTF8_WRITERS['write_mid_bmp'][0], 'write_upper_bmp': UTF8_WRITERS['write_upper_bmp'][0]}),
                           ('write_bmp_excl_ascii', ISet.of((0x80, 0xD7FF), (0xE000, 0xFFFF)), {'write_mid_bmp': UTF8_WRITERS['write_mid_bmp'][0], 'write_upper_bmp': UTF8_WRITERS['write_upper_bmp'][0]})):
        fn = 'handles::Utf8Destination::' + w
        b = f.body(fn)
        if b is None:
            rep.undecidable(rule, fn, 'writer not found', None, c)
            continue
        ra = RangeAnalysis(f, b, {('loc', 2)}, 16, dom, N=0x10000)
        got = {}
        for bi, t in b.calls():
            cal = (b.callee(t) or '').rsplit('::', 1)[-1]
            if cal.startswith('write_'):
                got[cal] = got.get(cal, ISet()) | (ra.reach_of(bi) & dom)
        # every value goes to exactly one writer whose own domain contains it (directly, or through the other dispatcher)
        accepts = {'write_ascii': ISet.of((0, 0x7F)), 'write_mid_bmp': UTF8_WRITERS['write_mid_bmp'][0], 'write_upper_bmp': UTF8_WRITERS['write_upper_bmp'][0],
                   'write_bmp_excl_ascii': ISet.of((0x80, 0xD7FF), (0xE000, 0xFFFF)), 'write_bmp': ISet.of((0, 0xD7FF), (0xE000, 0xFFFF))}
        union = ISet()
        overlap = False
        for k_, v_ in got.items():
            overlap = overlap or bool(union & v_)
            union = union | v_
        ok = not ra.mixed and bool(got) and all(k_ in accepts and k_ != w and not (v_ - accepts[k_]) for k_, v_ in got.items()) and union == dom and not overlap
        rep.ob(rule + '.route', fn, ok, 'routing by value differs from the writers\' domains: %r' % {k: repr(v) for k, v in got.items()}, sp_str(b.raw['span']),
               {k: repr(v) for k, v in got.items()}, c)
        n += 1
    # UTF-16 astral writer: a well-formed surrogate pair for every supplementary scalar
    fn = 'handles::Utf16Destination::write_astral'
    b = f.body(fn)
    if b is None:
        rep.undecidable(rule, fn, 'writer not found', None, c)
    else:
        dom = ISet.of((0x10000, 0x10FFFF))
        vals = unit_values(f, b, 32, dom, 0x110000)
        ok = vals is not None and len(vals) == 2
        why = ''
        if ok:
            for v, (a, z) in zip(vals, ((0xD800, 0xDBFF), (0xDC00, 0xDFFF))):
                for p in restrict(v, dom):
                    r_ = piece_value_range(p)
                    if r_ is None or not (a <= r_[0] and r_[1] <= z):
                        ok = False
                        why = 'unit range %s outside %X-%X' % (r_, a, z)
        rep.ob(rule, fn, ok, why or 'expected two units', sp_str(b.raw['span']), {'units': 2}, c)
        n += 1
    rep.floor(rule, 'writers proved', n, 6, c)
