"""C02 — decoder results do not depend on how input and output are chunked (structural clauses D1–D6)."""
import t_dst, r_account, r_preamble, r_resume, r_iso, r_inv, r_inputempty, r_asciicopy
import p_c10, p_c01, r_surr, r_pendcount, r_requeue

MANIFEST = {
    'category': 'other',
    'text': 'Necessary structural conditions of chunk independence, decided for all histories at once from MIR: (D1) T-DST — in '
            'every decoder body no Malformed result is control-dependent on a branch over the destination capacity unless the other '
            'side is a pure OutputFull exit; (D2) R-ACCOUNT — forward dataflow over each of the decoder bodies (loops included): a byte '
            'taken from the source is written, reported as Malformed, pushed back (unread) or remembered in the decoder state before '
            'every return, so ending a call mid-sequence loses nothing; (D3) R-PREAMBLE — the three deferred outputs (gb18030 '
            'pending_ascii, ISO-2022-JP pending_prepended, UTF-16 pending_bmp) are flushed before the source is touched, and '
            '(OutputFull,0,0) is returned with nothing changed when they do not fit; (D4) R-RESUME — the five resume prologs '
            're-check output space with the main loop\'s test before reading, clear the pending state exactly when it is consumed '
            'or reported at end of stream, and leave it untouched on early returns; (D5) the BOM replay helpers recombine counts '
            'as the reference automaton prescribes (shared with C10); (D6) the UTF-8 and UTF-16 expansions of every decoder macro '
            'are structurally isomorphic. Equality of the concatenated output with the one-shot result over all histories '
            '(which needs the semantics of every body) is not decided. ' 
            '(R-SURR) every surrogate-class test on the decoder side (UTF-16 decoder bodies, the copy_utf16_from fast paths including the hold-back of a trailing high surrogate at a chunk or output boundary, convert_unaligned_utf16_to_utf8) denotes exactly D800-DBFF, DC00-DFFF or D800-DFFF, so a pair is never split differently depending on where the chunk or the output ends. ' 
            '(R-PENDCOUNT) for the two decoders that keep an unfinished sequence in an enum (EUC-JP, gb18030), Pending::count() — reported as the malformed length when the stream ends there — agrees with the bytes actually taken: on every path from a loop head to `return InputEmpty` that stores a non-None variant, count(variant) minus the number of byte reads on the path is the same for all variants (the byte already in hand at that head). ' 
            '(R-REQUEUE) on every path that ends in Malformed(len, after) with after > 0 (gb18030: 8 paths, resume and in-loop) the bytes of the current sequence are ordered chronologically (payload of the matched pending variant, byte in hand, reads minus unread) and every value stored into a state field derives only from the `after` re-queued bytes, never from the malformed ones, and each re-queued byte reaches a state field. (R-ASCIICOPY) the ASCII fast-path helpers of the handles (copy_ascii_from/to_check_space_*) advance the source and the destination position in step by what the ASCII kernel consumed, add only the units of the non-ASCII character on the source side and nothing on a path that stops, and report with Stop the source position itself and the destination position.',
    'note': 'Trusted: rustc MIR, mirx, rule library; the frozen tables of deferred-output and pending-input fields (confirmed by reading).',
    'technique': 'MIR dataflow (may-analysis), control-dependence taint rule, bounded path summaries, sibling-expansion comparison',
}
CONFIGS = {'quick': ['default'], 'thorough': ['default', 'noalloc', 'simd']}


def decoder_side(name):
    return 'Decoder' in name.split('::')[-2] if '::' in name else False


def run(rep, facts, tier):
    for c, f in facts.items():
        nb, nev = t_dst.run(rep, f, c, 'T-DST', lambda n: 'Decoder::' in n or n.startswith('handles::Utf8Destination') or n.startswith('handles::Utf16Destination'))
        rep.floor('T-DST', 'Malformed constructions examined', nev, 150, c)
        nb, ng = r_account.run(rep, f, c, 'R-ACCOUNT', lambda n: 'Decoder::' in n)
        rep.floor('R-ACCOUNT', 'decoder bodies with unit fetches', nb, 16, c)
        rep.floor('R-ACCOUNT.sites', 'unit fetch sites', ng, 50, c)
        r_preamble.run(rep, f, c, 'R-PREAMBLE')
        n = r_inputempty.run(rep, f, c, 'R-INPUTEMPTY', lambda nm: 'Decoder::' in nm or nm.startswith(('handles::Utf16Destination', 'handles::Utf8Destination', 'handles::convert_unaligned')))
        rep.floor('R-INPUTEMPTY', 'InputEmpty constructions (decoders)', n, 40, c)
        r_resume.run(rep, f, c, 'R-RESUME')
        p_c10.d1_main(rep, f, c)
        for sink in ('utf8', 'utf16'):
            p_c10.helpers(rep, f, c, sink)
        r_iso.run(rep, f, c, 'R-ISO', '::decode_to_utf8_raw', '::decode_to_utf16_raw', 8)
        r_inv.run(rep, f, c, 'R-INV')
        r_asciicopy.run(rep, f, c, want=lambda n: 'copy_ascii_from_' in n)
        r_pendcount.run(rep, f, c)
        n = r_requeue.run(rep, f, c)
        rep.floor('R-REQUEUE', 'Malformed(len, after>0) paths with re-queued bytes', n, 8, c)
        n = r_surr.run(rep, f, c, 'R-SURR', p_c01.DEC_SURR_SCOPE)
        rep.floor('R-SURR', 'surrogate-class tests on the decoder side', n, 10, c)
    return ('other', MANIFEST['text'], [])
