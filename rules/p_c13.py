"""C13 — label resolution implements get-an-encoding for all byte strings (DESIGN.md §6 C13, O1–O6)."""
import os, re
from mirlib import *
from ranges import *
import factsbuild

MANIFEST = {
    'category': 'proof',
    'text': 'Finite obligation set discharged from the type-checked MIR and the const-evaluated statics, covering every byte '
            'string at once: the three-phase scanner of Encoding::for_label is extracted as an exact byte-class automaton '
            '(whitespace set, case folding, accepted alphabet, reject class, length cut-off, store/index discipline) and compared '
            'with the Standard\'s get-an-encoding; LABELS_SORTED is strictly sorted under the order the binary-search comparator '
            'implements; the label/encoding tables pair up as in the WHATWG label list (the repository\'s generated copy); '
            'for_label_no_replacement filters exactly REPLACEMENT; every encoding name is a label resolving to itself.',
    'note': 'Trusted: core::slice::binary_search_by and Iterator::cmp/rev semantics, rustc MIR and const evaluation, mirx, the rule library, '
            'src/test_labels_names.rs as the transcription of the WHATWG label list.',
    'technique': 'abstract interpretation of the scanner (exact byte-class extraction) + table obligations over const-evaluated statics',
}

CONFIGS = {'quick': ['default'], 'thorough': ['default', 'noalloc', 'simd']}

WS = ISet.of(0x09, 0x0A, 0x0C, 0x0D, 0x20)          # Encoding Standard: ASCII whitespace
UPPER = ISet.of((0x41, 0x5A))
BYTE = ISet.of((0, 255))


def read_str_table(f, name):
    a = f.statics[name]['alloc']
    raw = bytes.fromhex(a['bytes'])
    rel = {r['at']: r for r in a['relocs']}
    out = []
    for i in range(0, len(raw), 16):
        r = rel.get(i)
        ln = int.from_bytes(raw[i + 8:i + 16], 'little')
        if r is None or 'mem' not in r['to']:
            raise ValueError('%s[%d] is not a pointer to constant memory' % (name, i // 16))
        data = f.mem_bytes(r['to']['mem'])
        out.append(data[r['off']:r['off'] + ln])
    return out


def read_ptr_table(f, name):
    a = f.statics[name]['alloc']
    rel = {r['at']: r for r in a['relocs']}
    n = a['size'] // 8
    out = []
    for i in range(n):
        r = rel.get(i * 8)
        if r is None or 'static' not in r['to'] or r['off'] != 0:
            raise ValueError('%s[%d] is not a pointer to a static' % (name, i))
        out.append(r['to']['static'])
    return out


def label_key(b):
    return (len(b), bytes(reversed(b)))


def parse_label_oracle():
    p = os.path.join(factsbuild.REPO, 'src', 'test_labels_names.rs')
    out = {}
    for m in re.finditer(r'Encoding::for_label\(b"([^"]*)"\),\s*Some\((\w+)\)', open(p).read()):
        out[m.group(1).encode()] = m.group(2)
    return out


def tables(rep, f, c):
    try:
        labels = read_str_table(f, 'LABELS_SORTED')
        encs = read_ptr_table(f, 'ENCODINGS_IN_LABEL_SORT')
    except (KeyError, ValueError) as e:
        rep.undecidable('C13-O1', 'tables', str(e), None, c)
        return None, None
    rep.ob('C13-O3.len', 'parallel arrays', len(labels) == len(encs), 'LABELS_SORTED and ENCODINGS_IN_LABEL_SORT differ in length',
           None, {'labels': len(labels), 'encodings': len(encs)}, c)
    rep.floor('C13-O1', 'labels', len(labels), 228, c, exact=True)
    # O1 strictly increasing under (length, bytes from the end)
    bad = [i for i in range(1, len(labels)) if not label_key(labels[i - 1]) < label_key(labels[i])]
    rep.ob('C13-O1.sorted', 'LABELS_SORTED', not bad,
           'not strictly increasing under (length, reversed bytes) at index %s: %r' % (bad[:3], [labels[i] for i in bad[:3]]),
           sp_str(f.statics['LABELS_SORTED']['span']), {'entries': len(labels), 'first': labels[0].decode(), 'last': labels[-1].decode()}, c)
    low = [l for l in labels if l != l.lower() or any(ch in WS for ch in l)]
    rep.ob('C13-O1.lower', 'LABELS_SORTED', not low, 'label table contains upper-case or whitespace bytes: %r' % low[:3], None, None, c)
    # O3 pairing against the WHATWG list (repository copy)
    oracle = parse_label_oracle()
    rep.floor('C13-O3', 'oracle labels parsed from src/test_labels_names.rs', len(oracle), 228, c, exact=True)
    mism = []
    for l, e in zip(labels, encs):
        want = oracle.get(l)
        if want is None or want + '_INIT' != e:
            mism.append((l.decode('latin1'), e, want))
    missing = [l for l in oracle if l not in set(labels)]
    rep.ob('C13-O3.pairs', 'label->encoding', not mism and not missing,
           'table pairs differ from the label list: %r missing %r' % (mism[:3], missing[:3]), sp_str(f.statics['ENCODINGS_IN_LABEL_SORT']['span']),
           {'pairs_compared': len(labels)}, c)
    return labels, encs


def encoding_names(f):
    """{static X_INIT: name} from the initializer bodies."""
    out = {}
    for n, b in f.bodies.items():
        if b.kind != 'static' or not n.endswith('_INIT'):
            continue
        for blk in b.blocks:
            for st in blk['s']:
                if 'assign' in st and 'aggregate' in st['rv']:
                    k = st['rv']['aggregate']
                    if isinstance(k, dict) and k.get('adt') == 'Encoding' and 'name' in k.get('fields', []):
                        o = st['rv']['ops'][k['fields'].index('name')]
                        c = o.get('const')
                        if c and 'str' in c:
                            out[n] = c['str']
    return out


def names(rep, f, c, labels, encs):
    nm = encoding_names(f)
    rep.floor('C13-O6', 'encoding statics with a name', len(nm), 40, c, exact=True)
    idx = {l: e for l, e in zip(labels, encs)}
    for st, name in sorted(nm.items()):
        low = name.lower().encode()
        rep.ob('C13-O6', st, idx.get(low) == st, 'name %r lower-cased is not a label resolving to this encoding (got %r)' % (name, idx.get(low)),
               sp_str(f.statics[st]['span']) if st in f.statics else None, {'name': name}, c)
    rep.ob('C13-O6.distinct', 'names', len(set(nm.values())) == len(nm), 'encoding names are not distinct', None, None, c)


def scanner(rep, f, c, labels):
    fn = 'Encoding::for_label'
    b = f.body(fn)
    if b is None:
        rep.undecidable('C13-O4', fn, 'function not found', None, c)
        return
    site = sp_str(b.raw['span'])
    r = Resolver(b)
    alph = set()
    for l in labels:
        alph.update(l)
    ALPH = ISet.of(*sorted(alph))
    maxlen = max(len(l) for l in labels)
    # locals
    arr = [i for i, l in enumerate(b.locals) if re.match(r'\[u8; \d+\]$', l['ty'])]
    if len(arr) != 1:
        rep.undecidable('C13-O4', fn, 'expected exactly one [u8; N] scratch array', site, c)
        return
    A = arr[0]
    N = int(re.match(r'\[u8; (\d+)\]', b.locals[A]['ty']).group(1))
    rep.ob('C13-O4.capacity', 'scratch array', N >= maxlen, 'scratch array (%d) shorter than the longest label (%d)' % (N, maxlen), site,
           {'array_len': N, 'longest_label': maxlen}, c)
    nexts = [bi for bi, t in b.calls() if (b.callee(t) or '').endswith('Iterator>::next')]
    # a phase that only skips (leading whitespace) may be written iter.find(|b| !skip(b)): a fetch whose Some payload is known to
    # satisfy the closure's predicate, every other byte having been skipped
    finds = {}
    for bi, t in b.calls():
        if (b.callee(t) or '').endswith('::find') and len(t['args']) == 2:
            clos_ = Resolver(b).operand(t['args'][1])
            if clos_[0] == 'agg' and clos_[1] == 'closure' and len(clos_) == 4 and f.body(clos_[3]) is not None and f.body(clos_[3]).arg_count == 2:
                cb_ = f.body(clos_[3])
                x2 = ('loc', 2)
                ra_ = RangeAnalysis(f, cb_, {x2, ('deref', x2), ('deref', ('deref', x2))}, 8, BYTE)
                if not ra_.mixed:
                    ts_, fs_, us_ = ra_.return_value().truth_set()
                    if not us_:
                        finds[bi] = ts_
    nexts = nexts + sorted(finds)
    rep.ob('C13-O4.phases', 'phases', len(nexts) == 3, 'expected three scanning phases, found %d' % len(nexts), site, {'phases': len(nexts)}, c)
    if len(nexts) != 3:
        return
    nexts.sort(key=lambda bi: b.blocks[bi]['tsp']['at'][1])
    ret_none = set()
    for bi, blk in enumerate(b.blocks):
        for st in blk['s']:
            if 'assign' in st and st['assign']['l'] == 0 and 'aggregate' in st['rv']:
                k = st['rv']['aggregate']
                if isinstance(k, dict) and k.get('variant') == 'None':
                    ret_none.add(bi)
    # stores into the scratch array and position updates
    stores = {}
    for bi, blk in enumerate(b.blocks):
        for si, st in enumerate(blk['s']):
            if 'assign' in st and st['assign']['l'] == A and st['assign']['p']:
                pe = st['assign']['p'][0]
                if not (isinstance(pe, dict) and 'index' in pe):
                    rep.undecidable('C13-O4', fn, 'store into scratch array with unrecognised index form', sp_str(st['sp']), c)
                    return
                stores[bi] = (pe['index'], st)
    # the write position: the local every scratch store is indexed by
    pos = sorted({Resolver(b).local(idx)[1] for idx, st in stores.values() if Resolver(b).local(idx)[0] == 'loc'})
    # the search block: where binary_search_by is called
    search = [bi for bi, t in b.calls() if 'binary_search_by' in (b.callee(t) or '')]
    if len(search) != 1:
        rep.undecidable('C13-O2', fn, 'binary_search_by call not found', site, c)
        return
    phase_results = []
    for k, nb in enumerate(nexts):
        t = b.blocks[nb]['t']
        res_local = t['dest']['l']
        sw = t['target']
        some = none = None
        for lab, tgt in switch_edges(b, sw):
            v = variant_of_edge(b, sw, lab)
            if v == 'Some':
                some = tgt
            elif v == 'None':
                none = tgt
        if some is None or none is None:
            rep.undecidable('C13-O4', '%s:phase%d' % (fn, k + 1), 'cannot find Some/None arms of next()', sp_str(b.blocks[nb]['tsp']), c)
            return
        xkey = ('deref', ('fld', ('as', r.local(res_local), 'Some'), '0'))
        dom_k = finds.get(nb, BYTE)
        ra = RangeAnalysis(f, b, {xkey}, 8, dom_k, entries=[some], stop=set(nexts) | set(search))
        if ra.mixed:
            rep.undecidable('C13-O4', '%s:phase%d' % (fn, k + 1), 'byte classification is not a pure comparison tree: %r' % (ra.mixed[:1],),
                            sp_str(b.blocks[some]['tsp']), c)
            return
        # classes
        rej = ISet()
        cut_rej = ISet()
        for bi in ret_none:
            rsx = Resolver(b)
            is_cut = any(k_ == 'bool' and v_ is True and e_[0] == 'bin' and e_[1] == 'Eq' and e_[3][0] == 'c'
                         and e_[2][0] == 'loc' and e_[2][1] in pos
                         for k_, e_, v_, S_ in block_conditions(b, bi, rsx))
            if is_cut:
                cut_rej = cut_rej | ra.reach_of(bi)
            else:
                rej = rej | ra.reach_of(bi)
        store_lower = ISet()
        store_same = ISet()
        store_other = ISet()
        for bi, (idx, st) in stores.items():
            s = ra.reach_of(bi)
            if not s:
                continue
            rs = Resolver(b)
            val = rs.rvalue(st['rv'])
            # the stored value per byte class: directly, or through a local assigned on several arms of the classification
            # (`let lower = match *byte { b'A'..=b'Z' => *byte + 0x20, .. => *byte }`) — each byte takes one arm per iteration
            alts = [(s, val)]
            if val[0] == 'loc' and val[1] > b.arg_count and all(k_ == 'assign' for _, _, k_, _ in b.defs.get(val[1], [])):
                alts = []
                seen_b = ISet()
                for dbi, dsi, k_, node in b.defs.get(val[1], []):
                    sd = ra.reach_of(dbi) & s
                    if not sd:
                        continue
                    alts.append((sd - seen_b, Resolver(b).rvalue(node['rv'])))
                    if sd & seen_b:
                        alts.append((sd & seen_b, ('ambiguous',)))
                    seen_b = seen_b | sd
                if s - seen_b:
                    alts.append((s - seen_b, ('unassigned',)))
            for s, val in alts:
                if val == xkey:
                    store_same = store_same | s
                elif val == ('bin', 'Add', xkey, ('c', 0x20, 'u8')):
                    store_lower = store_lower | s
                elif val[0] == 'call' and (val[1] or '').endswith('::to_ascii_lowercase') and len(val[2]) == 1 and \
                        (strip_ref(val[2][0]) == xkey or val[2][0] == xkey or strip_ref(val[2][0]) == strip_ref(xkey[1] if xkey[0] == 'deref' else xkey)):
                    # u8::to_ascii_lowercase: + 0x20 for A-Z, the identity for every other byte (core semantics)
                    store_lower = store_lower | (s & UPPER)
                    store_same = store_same | (s - UPPER)
                else:
                    store_other = store_other | s
        to = {j: ra.reach_of(nb2) for j, nb2 in enumerate(nexts)}
        if nb in finds:
            to[k] = to[k] | (BYTE - finds[nb])         # what find() passed over without stopping: skipped, the phase goes on
        to_search = ra.reach_of(search[0])
        # where does the None arm (end of input) lead?
        none_reach = b.reach_from([none], stop=set(nexts) | set(search))
        hits = sorted(j for j, nb2 in enumerate(nexts) if any(nb2 in b.succ[x] for x in none_reach))
        to_s = any(search[0] in b.succ[x] for x in none_reach)
        if none_reach & ret_none and not hits and not to_s:
            none_to = 'reject'
        elif to_s and not hits and not (none_reach & ret_none):
            none_to = 'search'
        elif hits == [2] and not to_s and not (none_reach & ret_none):
            none_to = 'phase3'      # slice::Iter is fused: phase 3 sees None again and goes to the search
        else:
            none_to = 'other'
        phase_results.append(dict(k=k, rej=rej, lower=store_lower, same=store_same, other=store_other, to=to, to_search=to_search, cut_rej=cut_rej,
                                  none_to=none_to, ra=ra, some=some))
    P1, P2, P3 = phase_results
    key = fn

    def ob(name, ok, msg, extracted=None):
        rep.ob('C13-O4.' + name, key, ok, msg, site, extracted, c)

    stored1 = P1['lower'] | P1['same']
    stored2 = P2['lower'] | P2['same']
    # --- phase 1 (leading whitespace)
    ob('p1.ws', P1['to'][0] - stored1 == WS and not (P1['to'][0] & stored1),
       'phase 1 skips %r; the Standard strips exactly %r' % (P1['to'][0] - stored1, WS), {'skipped': repr(P1['to'][0] - stored1)})
    ob('p1.end', P1['none_to'] == 'reject', 'empty / all-whitespace input must yield None')
    # --- phase 2 (label body)
    ob('p2.ws', (P2['to'][2] | P2['to_search']) - stored2 == WS, 'phase 2 ends the label on %r; must be exactly %r' % ((P2['to'][2] | P2['to_search']) - stored2, WS),
       {'terminators': repr((P2['to'][2] | P2['to_search']) - stored2)})
    ob('p2.end', P2['none_to'] in ('search', 'phase3'), 'end of input inside the label must go to the table search')
    # --- phase 3 (trailing whitespace)
    ob('p3.ws', P3['to'][2] == WS and P3['rej'] == BYTE - WS and not P3['lower'] and not P3['same'],
       'phase 3 accepts %r and rejects %r; must accept exactly %r' % (P3['to'][2], P3['rej'], WS), {'accepted': repr(P3['to'][2])})
    ob('p3.end', P3['none_to'] == 'search', 'end of input after the label must go to the table search')
    # --- per-byte store semantics in phases 1 and 2
    for P, nm in ((P1, 'p1'), (P2, 'p2')):
        ob(nm + '.no-odd-store', not P['other'], 'a byte class %r is stored as something other than itself or itself+0x20' % P['other'])
        lower, same, rej = P['lower'], P['same'], P['rej']
        ws_here = WS
        # bytes whose lower-case form is in the label alphabet must be stored lower-cased
        must_lower = ISet.of(*[x for x in range(0x41, 0x5B) if (x + 0x20) in ALPH])
        must_same = ISet.of(*[x for x in alph if not (0x41 <= x <= 0x5A)])
        ob(nm + '.fold', (must_lower - lower) == ISet(), 'upper-case letters %r are not stored lower-cased' % (must_lower - lower),
           {'lowercased': repr(lower)})
        ob(nm + '.alphabet', (must_same - same) == ISet(), 'label bytes %r are not passed through unchanged' % (must_same - same),
           {'passed_through': repr(same)})
        # anything else that is stored must not produce a byte of the label alphabet (or a false match could arise)
        false_lower = ISet.of(*[x for x in range(256) if x in lower and not (0x41 <= x <= 0x5A) and ((x + 0x20) & 0xFF) in ALPH])
        ob(nm + '.no-false-fold', not false_lower, 'non-letters %r are folded onto label bytes' % false_lower)
        ob(nm + '.upper-not-verbatim', not (same & UPPER), 'upper-case letters %r stored without folding' % (same & UPPER))
        total = lower | same | rej | (WS if nm == 'p1' else WS)
        ob(nm + '.total', total == BYTE and not (lower & same) and not ((lower | same) & rej) and not ((lower | same | rej) & WS),
           'byte classes do not partition 00-FF: unclassified %r' % (BYTE - total), {'rejected': repr(rej)})
        ob(nm + '.next', (lower | same) - P['to'][1] == ISet(), 'after storing a byte the scanner does not continue in phase 2')
    # --- index discipline
    if len(pos) != 1:
        rep.undecidable('C13-O4.index', fn, 'trimmed_pos local not found', site, c)
        return
    Pz = pos[0]
    pos_defs = []
    for bi, si, kind, node in b.defs.get(Pz, []):
        rs = Resolver(b)
        pos_defs.append((bi, rs.rvalue(node['rv'])))
    ok_defs = all(e in (('c', 0, 'usize'), ('c', 1, 'usize'), ('bin', 'Add', ('loc', Pz), ('c', 1, 'usize'))) for _, e in pos_defs)
    ob('index.updates', ok_defs and (any(e == ('c', 0, 'usize') and bi == 0 for bi, e in pos_defs) or (bool(finds) and any(e == ('c', 1, 'usize') for bi, e in pos_defs))),
       'trimmed_pos is updated other than by =0 (entry), =1, +=1: %r' % [expr_str(e, b) for _, e in pos_defs])
    cut = None
    for bi, (idx, st) in sorted(stores.items()):
        rs = Resolver(b)
        ie = rs.local(idx)
        ok_idx = ie == ('loc', Pz)
        in_p1 = bool(P1['ra'].reach_of(bi)) and bi in b.reach_from([P1['some']], stop=set(nexts))
        # following position update in the same straight-line continuation
        nxt = [e for bj, e in pos_defs if bj in b.reach_from([bi], stop=set(nexts) | set(search))]
        if in_p1:
            rd = reaching_defs(b, Pz)[bi]
            rd_vals = [e for bj, e in pos_defs if any(d[0] == bj for d in rd)]
            ok = ok_idx and nxt == [('c', 1, 'usize')] and rd_vals == [('c', 0, 'usize')]
            if not ok and ie == ('c', 0, 'usize'):
                # trimmed[0] = first; let mut trimmed_pos = 1;
                ok = nxt == [('c', 1, 'usize')] and not [d for d in rd if d[0] != 'arg']
            rep.ob('C13-O4.index.p1', '%s:store@phase1' % fn, ok, 'phase-1 store is not trimmed[0] followed by trimmed_pos = 1',
                   sp_str(st['sp']), None, c)
        else:
            conds = block_conditions(b, bi, rs)
            g = [e for k_, e, v, S in conds if k_ == 'bool' and v is False and e[0] == 'bin' and e[1] == 'Eq' and e[2] == ('loc', Pz) and e[3][0] == 'c']
            okg = len(g) >= 1 and all(maxlen <= e[3][1] <= N for e in g)
            if g:
                cut = g[0][3][1]
            ok = ok_idx and okg and nxt == [('bin', 'Add', ('loc', Pz), ('c', 1, 'usize'))]
            rep.ob('C13-O4.index.p2', '%s:store@phase2' % fn, ok,
                   'phase-2 store is not guarded by trimmed_pos != K with longest_label <= K <= array length, followed by += 1',
                   sp_str(st['sp']), {'cutoff': cut, 'array_len': N, 'longest_label': maxlen}, c)
    rep.floor('C13-O4.index', 'scratch stores', len(stores), 2, c)     # at least one per storing phase; the per-class obligations above fail if a class loses its store
    # the cut-off must reject, never search with a truncated candidate
    ncut = 0
    for bi, blk in enumerate(b.blocks):
        t = blk['t']
        if 'switch' in t and t.get('sty') == 'bool':
            e = Resolver(b).operand(t['switch'])
            if e[0] == 'bin' and e[1] == 'Eq' and e[2] == ('loc', Pz) and e[3][0] == 'c':
                ncut += 1
                tt = [tgt for lab, tgt in switch_edges(b, bi) if bool_truth(b, bi, lab) is True]
                rr = b.reach_from(tt)
                rep.ob('C13-O4.cutoff', '%s:cutoff' % fn, not (rr & (set(nexts) | set(search))) and bool(rr & ret_none),
                       'an over-long label does not lead to None', sp_str(blk['tsp']), {'K': e[3][1]}, c)
    rep.floor('C13-O4.cutoff', 'cut-off tests', ncut, 1, c)      # every phase-2 store must be guarded (index.p2); one shared test is enough
    # --- candidate = &trimmed[..trimmed_pos]
    cl = None
    t = b.blocks[search[0]]['t']
    clos = r.operand(t['args'][1])
    ok_c = False
    if clos[0] == 'agg' and clos[1] == 'closure':
        cap = strip_ref(clos[2][0]) if clos[2] else None
        # capture is &candidate where candidate = &trimmed[..pos]
        e = cap
        while e and e[0] == 'loc' and b.single_def(e[1]) is None:
            break
        cand = e
        if cand and cand[0] == 'call' and 'index' in cand[1]:
            base, rng = strip_ref(cand[2][0]), cand[2][1]
            if base == ('loc', A) and rng[0] == 'agg' and 'RangeTo' in rng[1] and rng[2][0] == ('loc', Pz):
                ok_c = True
    ob('candidate', ok_c, 'the searched candidate is not &trimmed[..trimmed_pos]: %s' % expr_str(clos, b)[:200])
    tbl = strip_ref(r.operand(t['args'][0]))
    ob('search-table', tbl[0] == 'cptr' and 'LABELS_SORTED' in tbl[1], 'binary search is not over LABELS_SORTED: %s' % expr_str(tbl, b)[:100])
    # result mapping: Ok(i) -> Some(ENCODINGS_IN_LABEL_SORT[i]) ; Err -> None
    res_local = t['dest']['l']
    ok_map = False
    for bi, blk in enumerate(b.blocks):
        for st in blk['s']:
            if 'assign' in st and st['assign']['l'] == 0 and 'aggregate' in st['rv']:
                k = st['rv']['aggregate']
                if isinstance(k, dict) and k.get('variant') == 'Some':
                    rs = Resolver(b)
                    v = strip_ref(rs.operand(st['rv']['ops'][0]))
                    conds = block_conditions(b, bi, rs)
                    okc = any(kk == 'variant' and vv == 'Ok' and e == rs.local(res_local) for kk, e, vv, S in conds)
                    if v[0] == 'idx' and 'ENCODINGS_IN_LABEL_SORT' in str(v[1]) and okc:
                        ie = v[2]
                        if ie == ('fld', ('as', rs.local(res_local), 'Ok'), '0'):
                            ok_map = True
    if not ok_map:
        # the same with combinators: search.ok().map(|i| ENCODINGS_IN_LABEL_SORT[i]) as the returned value
        rs = Resolver(b)
        for d in b.defs.get(0, []):
            if d[2] != 'call':
                continue
            e = rs.call(d[3], d[0], 0)
            if e[0] == 'call' and (e[1] or '').endswith('Option::<T>::map') and len(e[2]) == 2:
                src_, cl_ = e[2]
                if src_[0] == 'call' and (src_[1] or '').endswith('Result::<T, E>::ok') and len(src_[2]) == 1 and src_[2][0] == rs.local(res_local) and \
                        cl_[0] == 'agg' and cl_[1] == 'closure' and len(cl_) == 4:
                    cb = f.body(cl_[3])
                    if cb is not None and cb.arg_count == 2 and len(cb.defs.get(0, [])) == 1 and cb.defs[0][0][2] == 'assign':
                        v = strip_ref(Resolver(cb).rvalue(cb.defs[0][0][3]['rv']))
                        if v[0] == 'idx' and 'ENCODINGS_IN_LABEL_SORT' in str(v[1]) and v[2] == ('loc', 2):
                            ok_map = True
    ob('result', ok_map, 'Ok(i) is not mapped to Some(ENCODINGS_IN_LABEL_SORT[i])')


def comparator(rep, f, c):
    fn = 'Encoding::for_label::{closure#0}'
    # the closure handed to binary_search_by, whatever its number (other closures may precede it in the function)
    pb = f.body('Encoding::for_label')
    if pb is not None:
        for bi_, t_ in pb.calls():
            if 'binary_search_by' in (pb.callee(t_) or '') and len(t_['args']) == 2:
                cl_ = Resolver(pb).operand(t_['args'][1])
                if cl_[0] == 'agg' and cl_[1] == 'closure' and len(cl_) == 4:
                    fn = cl_[3]
    b = f.body(fn)
    if b is None:
        rep.undecidable('C13-O2', fn, 'comparator closure not found', None, c)
        return
    site = sp_str(b.raw['span'])
    r = Resolver(b)
    cmps = [(bi, t) for bi, t in b.calls() if (b.callee(t) or '').endswith('::cmp')]
    ok_len = ok_rev = False
    why = ''
    probe = ('loc', 2)
    for bi, t in cmps:
        cal = b.callee(t)
        a0 = strip_ref(r.operand(t['args'][0]))
        a1 = strip_ref(r.operand(t['args'][1]))
        if 'usize' in cal or 'Ord for usize' in cal or 'impl_ord' in cal or cal.startswith('core::cmp::impls'):
            # len(probe.as_bytes()).cmp(&len(candidate))
            def is_probe_len(e):
                return e[0] == 'len' and any(s_ == probe for s_ in walk(e))
            def is_cand_len(e):
                return e[0] == 'len' and any(s_[0] == 'fld' and s_[1] and strip_ref(s_[1]) == ('loc', 1) for s_ in walk(e))
            if is_probe_len(a0) and is_cand_len(a1):
                ok_len = True
            else:
                why += 'length comparison operands are not (probe, candidate); '
        elif 'Iterator::cmp' in cal or 'iter::traits::iterator::Iterator::cmp' in cal:
            def is_rev_of(e, pred):
                return e[0] == 'call' and e[1].endswith('::rev') and pred(e[2][0])
            p_ok = is_rev_of(a0, lambda e: any(s_ == probe for s_ in walk(e)))
            c_ok = is_rev_of(a1, lambda e: any(s_[0] == 'fld' and strip_ref(s_[1]) == ('loc', 1) for s_ in walk(e)))
            if p_ok and c_ok:
                ok_rev = True
            else:
                why += 'byte comparison is not probe.rev().cmp(candidate.rev()); '
    # early return of the length ordering when != Equal
    rep.ob('C13-O2', fn, ok_len and ok_rev, 'comparator does not have the (length, reversed bytes) shape the table order assumes: %s' % why,
           site, {'cmp_calls': [b.callee(t) for _, t in cmps]}, c)


def no_replacement(rep, f, c):
    fn = 'Encoding::for_label_no_replacement'
    b = f.body(fn)
    if b is None:
        rep.undecidable('C13-O5', fn, 'function not found', None, c)
        return
    site = sp_str(b.raw['span'])
    r = Resolver(b)
    calls = [(bi, t) for bi, t in b.calls() if b.callee(t) == 'Encoding::for_label']
    ok = len(calls) == 1 and strip_ref(r.operand(calls[0][1]['args'][0])) == ('loc', 1)
    some_blocks = []
    none_blocks = []
    for bi, blk in enumerate(b.blocks):
        for st in blk['s']:
            if 'assign' in st and st['assign']['l'] == 0 and 'aggregate' in st['rv']:
                k = st['rv']['aggregate']
                if isinstance(k, dict) and k.get('variant') == 'Some':
                    some_blocks.append((bi, st))
                elif isinstance(k, dict) and k.get('variant') == 'None':
                    none_blocks.append((bi, st))
    res = r.local(calls[0][1]['dest']['l']) if calls else None
    payload = ('fld', ('as', res, 'Some'), '0') if res else None
    good_some = False
    for bi, st in some_blocks:
        rs = Resolver(b)
        v = strip_ref(rs.operand(st['rv']['ops'][0]))
        conds = block_conditions(b, bi, rs)
        is_payload = v == payload
        eq_false = False
        for k, e, val, S in conds:
            if k == 'bool' and e[0] == 'call' and e[1].endswith('::eq') and val is False:
                args = [strip_ref(a) for a in e[2]]
                flat = str(args)
                if 'REPLACEMENT' in flat and any(a == payload or payload in list(walk(a)) for a in args):
                    eq_false = True
        if is_payload and eq_false:
            # exactness: the Some block is reached from the false edge of that comparison without any further branch
            for k, e, val, S in conds:
                if k == 'bool' and e[0] == 'call' and e[1].endswith('::eq') and val is False and 'REPLACEMENT' in str(e):
                    tgt = [tg for lab, tg in switch_edges(b, S) if bool_truth(b, S, lab) is False][0]
                    x = tgt
                    seen = set()
                    while x != bi and len(b.succ[x]) == 1 and x not in seen and 'call' not in b.blocks[x]['t']:
                        seen.add(x)
                        x = b.succ[x][0]
                    if x == bi:
                        good_some = True
    # the same written with a combinator: for_label(label).filter(|&e| e != REPLACEMENT)
    if not some_blocks and calls:
        filt = [(bi, t) for bi, t in b.calls() if (b.callee(t) or '').endswith('Option::<T>::filter') and t['dest']['l'] == 0 and not t['dest']['p']]
        if len(filt) == 1 and strip_ref(r.operand(filt[0][1]['args'][0])) == res and len([bi for bi, t in b.calls()]) == 2:
            for cname, cb in f.bodies.items():
                if cname.startswith(fn + '::{closure#') and cb.arg_count == 2:
                    rc = Resolver(cb)
                    ds0 = cb.defs.get(0, [])
                    e0 = rc.call(ds0[0][3], ds0[0][0], 0) if len(ds0) == 1 and ds0[0][2] == 'call' else (rc.rvalue(ds0[0][3]['rv']) if len(ds0) == 1 else None)
                    neg = False
                    while e0 is not None and e0[0] == 'un' and e0[1] == 'Not':
                        e0, neg = e0[2], not neg
                    if e0 is not None and e0[0] == 'call' and (e0[1] or '').endswith(('::ne', '::eq')) and ((e0[1].endswith('::ne')) != neg):
                        def base(x):
                            x = strip_ref(x)
                            while x[0] in ('deref', 'ref'):
                                x = strip_ref(x[1])
                            return x
                        args = [base(a) for a in e0[2]]
                        if ('loc', 2) in args and any('REPLACEMENT' in str(a) and a[0] == 'cptr' for a in args):
                            good_some = True
                            some_blocks = [(filt[0][0], None)]
    # the static REPLACEMENT points at REPLACEMENT_INIT
    rp = f.statics.get('REPLACEMENT')
    rp_ok = bool(rp) and any(rl['to'].get('static') == 'REPLACEMENT_INIT' for rl in rp['alloc']['relocs'])
    rep.ob('C13-O5', fn, ok and good_some and len(some_blocks) == 1 and rp_ok,
           'for_label_no_replacement is not for_label with exactly Some(REPLACEMENT) mapped to None', site,
           {'some_returns': len(some_blocks), 'none_returns': len(none_blocks)}, c)


def run(rep, facts, tier):
    for c, f in facts.items():
        labels, encs = tables(rep, f, c)
        if labels is None:
            continue
        names(rep, f, c, labels, encs)
        scanner(rep, f, c, labels)
        comparator(rep, f, c)
        no_replacement(rep, f, c)
    return ('proof', MANIFEST['text'], ['src/test_labels_names.rs is a faithful copy of the WHATWG label list'])
