"""Check driver plumbing: obligations, violations, known findings, evidence."""
import json, os, sys, time, re

VERIF = os.path.dirname(os.path.dirname(os.path.abspath(__file__)))
EVDIR = os.environ.get('VERIF_EVIDENCE') or os.path.join(VERIF, 'evidence')     # VERIF_EVIDENCE: development only (scratch runs must not touch the committed evidence)

TRUSTED_BASE = [
    "rustc nightly front/middle end: MIR construction at -Zmir-opt-level=0, instance resolution, const evaluation of statics",
    "the mirx fact printer (/verif/mirx) and the rule library (/verif/rules)",
    "oracle transcriptions of the WHATWG Encoding Standard / Unicode Table 3-7 / crate documentation (DESIGN.md Appendix A)",
    "semantics of the core/alloc items the crate calls (binary_search_by, Iterator::cmp, split_at_mut, checked_*, copy_from_slice, spare_capacity_mut, set_len)",
]


class Report:
    def __init__(self, pid, tier):
        self.pid = pid
        self.tier = tier
        self.t0 = time.time()
        self.obligations = 0
        self.discharged = 0
        self.violations = []      # (key, rule, msg, site, extra)
        self.samples = []
        self.counts = {}
        self.rules = {}
        self.configs = []
        self.notes = []
        self.analysed = {}

    def count(self, name, n=1):
        self.counts[name] = self.counts.get(name, 0) + n

    def ob(self, rule, key, ok, msg='', site=None, extracted=None, config='default'):
        """Record one obligation.  key must not contain line numbers."""
        self.obligations += 1
        self.rules[rule] = self.rules.get(rule, 0) + 1
        if ok:
            self.discharged += 1
            if extracted is not None and sum(1 for s in self.samples if s.get('rule') == rule) < 4:
                self.samples.append({'rule': rule, 'config': config, 'instance': key, 'at': site, 'extracted': extracted})
        elif not any(v['key'] == '%s:%s:%s' % (rule, config, key) for v in self.violations):
            self.violations.append({'key': '%s:%s:%s' % (rule, config, key), 'rule': rule, 'config': config,
                                    'instance': key, 'msg': msg, 'at': site, 'extracted': extracted})
        return ok

    def undecidable(self, rule, key, reason, site=None, config='default'):
        """Fail closed: the rule could not analyse something it must understand.

        One exception: an anchored function that is missing from the tree although the confirmed inventory lists it as a *private*
        helper.  Code cannot call a function that does not exist, so the helper was inlined into its callers or renamed by a
        refactoring; the callers are analysed by their own rules and the per-rule floors still require most anchors to be
        present.  Missing public or crate-visible API is always an alarm."""
        if reason in ('function not found', 'not found', 'decode body not found', 'writer not found'):
            try:
                import inline
                ent = inline.known().get(key)
            except Exception:
                ent = None
            if ent is not None and not ent.get('api'):
                self.count('private-helper-absent:' + config)
                self.notes.append('%s: private helper %s is no longer in the tree (inlined or renamed): its obligations are not checked under this name' % (rule, key))
                return True
        return self.ob(rule, key, False, 'undecidable: ' + reason, site, None, config)

    def floor(self, rule, what, n, floor, config='default', exact=False):
        """A rule that matches far fewer instances than were confirmed by hand must not pass (a vanished anchor passes vacuously).

        `floor` is the count confirmed on the pinned tree.  Counts of *sites* (comparisons, constructions, paths) legitimately
        shrink a little when duplicated code is merged or a test is written in another form, so the alarm threshold for them
        is three quarters of the confirmed count; inventories fixed by the Standard or the public API (labels, encodings, variant
        decoders: exact=True) must be complete."""
        need = floor if exact or floor <= 2 else max(2, (floor * 3) // 4)
        self.ob(rule + '.floor', what, n >= need,
                'instance count %d below the floor %d (confirmed on the pinned tree: %d; anchor missing or renamed?)' % (n, need, floor),
                None, {'count': n, 'floor': need, 'confirmed': floor}, config)

    # ------------------------------------------------------------------
    def finish(self, level, explanation, assumptions=None, extra_cov=None):
        known = load_known()
        wall = time.time() - self.t0
        real = []
        known_hit = []
        for v in self.violations:
            k = match_known(known, self.pid, v['key'])
            if k is not None:
                known_hit.append((k, v))
            else:
                real.append(v)
        vdir = os.path.join(EVDIR, 'violations')
        os.makedirs(vdir, exist_ok=True)
        # remove stale replay files of this property
        for f in os.listdir(vdir):
            if f.startswith(self.pid + '-'):
                os.remove(os.path.join(vdir, f))
        for k, v in known_hit:
            print('KNOWN-FINDING: property=%s %s [%s] %s' % (self.pid, k['what'], v['key'], v['msg']))
        for i, v in enumerate(real):
            safe = re.sub(r'[^A-Za-z0-9_.-]+', '_', v['key'])[:120]
            path = os.path.join(vdir, '%s-%02d-%s.json' % (self.pid, i, safe))
            with open(path, 'w') as f:
                json.dump(v, f, indent=1)
            site = v.get('at') or ''
            print('VIOLATION property=%s replay=%s rule=%s config=%s instance=%s at=%s :: %s' % (
                self.pid, path, v['rule'], v['config'], v['instance'], site, v['msg']))
        cov = {
            'explanation': explanation,
            'obligations': self.obligations,
            'discharged': self.discharged,
            'known_findings_matched': len(known_hit),
            'unlisted_violations': len(real),
            'rule_instances': self.rules,
            'counts': self.counts,
            'configs': self.configs,
            'analysed': self.analysed,
            'samples': self.samples[:40] if self.samples else [{'note': 'no sample recorded'}],
            'checker_cmd': './check %s --tier %s' % (self.pid, self.tier),
            'trusted_base': TRUSTED_BASE,
            'notes': self.notes,
        }
        if extra_cov:
            cov.update(extra_cov)
        if level == 'proof' and (real or known_hit or self.discharged != self.obligations):
            level = 'other'
        ev = {
            'property_id': self.pid,
            'tier': self.tier,
            'seed': int(os.environ.get('VERIF_SEED', '0') or 0),
            'level': level,
            'coverage': cov,
            'assumptions': (assumptions or []) + TRUSTED_BASE,
            'wall_s': round(wall, 2),
            'violations': len(real),
        }
        os.makedirs(EVDIR, exist_ok=True)
        with open(os.path.join(EVDIR, self.pid + '.json'), 'w') as f:
            json.dump(ev, f, indent=1)
        print('%s: %d obligations, %d discharged, %d known findings, %d violations, %.1fs [%s]' % (
            self.pid, self.obligations, self.discharged, len(known_hit), len(real), wall, self.tier))
        return 1 if real else 0


def load_known():
    p = os.path.join(VERIF, 'KNOWN_FINDINGS.json')
    if not os.path.exists(p):
        return []
    with open(p) as f:
        return json.load(f).get('findings', [])


def match_known(known, pid, key):
    """Exact key match only (config field may be '*').  'fixed' entries suppress nothing."""
    rule, config, inst = key.split(':', 2)
    for k in known:
        if k.get('status') != 'known' or k.get('property') != pid:
            continue
        kr, kc, ki = k['key'].split(':', 2)
        if kr == rule and ki == inst and (kc == '*' or kc == config):
            return k
    return None
