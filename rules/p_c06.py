"""C06 — conversions stay inside caller buffers and honour the read/written contract."""
import r_handle, r_inputempty, r_unchecked

MANIFEST = {
    'category': 'other',
    'text': 'Static structural decision of the memory-safety / contract part of C06, for every input and history at once: '
            'every store into a converter destination goes through a linear handle whose construction is dominated by a '
            'space test proving at least as many units as the handle can store (R-HANDLE); other clauses are added as rules land. '
            'Implicit bounds-check panics and numerical exactness are not decided.',
    'note': 'Trusted: rustc MIR construction and instance resolution, the mirx printer, the rule library, the contract of the ASCII kernels at two frozen sites.',
    'technique': 'custom MIR dataflow/dominance rules over a rustc_private fact dump (typestate + who-may-call)',
}

CONFIGS = {'quick': ['default', 'simd'], 'thorough': ['default', 'simd', 'noalloc', 'fast', 'lessslow']}


def run(rep, facts, tier):
    for c, f in facts.items():
        r_handle.run(rep, f, c)
        n = r_inputempty.run(rep, f, c, 'R-INPUTEMPTY')
        rep.floor('R-INPUTEMPTY', 'InputEmpty constructions', n, 80, c)
        n, d = r_unchecked.run(rep, f, c, 'R-UNCHECKED')
        rep.floor('R-UNCHECKED', 'unchecked slice accesses outside write_code_unit', n, 100, c)
    return ('other',
            'Structural part of C06 decided from MIR: (D1) R-HANDLE — every store into a converter destination goes '
            'through a linear handle whose construction is dominated by a space test proving at least as many units '
            'as any consuming method of that handle can store. Not decided: implicit bounds-check panics, numerical '
            'exactness.',
            [])
