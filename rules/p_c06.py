"""C06 — conversions stay inside caller buffers and honour the read/written contract."""
import r_handle, r_inputempty, r_unchecked, r_ofpanic, r_dim, r_utf8enc, r_idxspace

MANIFEST = {
    'category': 'other',
    'text': 'Memory-safety and contract clauses of C06 decided statically, for every input, length and history at once, in the default and '
            'simd-accel builds: (D1) R-HANDLE — every store into a converter destination goes through a linear handle whose construction is '
            'dominated by a space test proving at least as many units as the handle can store; (D2) R-UNCHECKED — each of the ~110 other '
            'get_unchecked[_mut] accesses is proved in bounds by an available-guard dataflow (facts base + G <= len generated on the proving '
            'edge of a length comparison, shifted by base += c, killed by other assignments, intersected at joins; `x != len` upgrades; '
            'min(src,dst) lengths; byte-indexed tables by value range against the array length), with 11 frozen sites resting on &str '
            'validity; (D3) R-INPUTEMPTY — InputEmpty is constructed only where the source is known exhausted; (D4) R-OFPANIC — the BOM '
            'replay helpers\' panic on OutputFull is unreachable with a documented-minimum sink iff maxwrite(first byte) + demanded space <= '
            'minimum for every variant decoder; this holds for the one-byte replays and the UTF-16 two-byte replay and FAILS for the UTF-8 '
            'two-byte replay (single-byte encodings, x-user-defined): a genuine defect, recorded as a known finding. Not decided: implicit '
            'bounds-check / overflow panics of checked indexing and arithmetic on all inputs, numerical exactness.  (R-UTF8ENC) the hand-written UTF-8 to UTF-8 encoder copies the longest prefix that fits and ends on a character boundary: the whole input with (InputEmpty, n, n) when it fits; otherwise the boundary search starts at exactly dst.len(), steps back by one over continuation bytes only, and the cut t is both what is copied (dst[..t] <- src[..t]) and what is reported (OutputFull, t, t). ' 
            '(R-DIM) dimension inference over the index arithmetic of the 40-odd slice-to-slice converter bodies (mem, utf_8, ascii, single_byte, x_user_defined, the unaligned UTF-16 helpers): every usize quantity is a source position/length, a destination position/length, a count valid in both or a constant (least fixpoint over the loop-carried locals, seeded by which buffer a local indexes); no sum or difference mixes a source and a destination quantity, each buffer is indexed and re-sliced only with its own quantities, a (read, written) result returns a source quantity first and a destination quantity second, and a single local indexes both buffers only in the three 1:1 conversions (frozen with reasons). A path that advances a source position and returns has stored something or advanced the destination position (R-DIM.consume); inside a loop that walks a buffer with a loop-carried position every index into that buffer depends arithmetically on such a position, not on a count alone (R-DIM.relative, 266 index sites in handles/mem/utf_8/single_byte/ascii). (R-IDXSPACE) in five hand-written converters (convert_unaligned_utf16_to_utf8, convert_utf16_to_utf8_partial_inner/_tail, convert_utf8_to_utf16_up_to_invalid, mem::convert_latin1_to_utf8_partial) every bounds check of a checked store into the destination is implied by the space tests: facts X + a < dst.len() from the comparisons of a path (any operator and operand order, through locals like dst_len_minus_three), loop-head invariants by fixpoint, 20 checks; elsewhere implicit bounds-check panics remain undecided. Also run here: the C10-D1 helper rules for the BOM replay helpers, i.e. the (result, read, written) they report.',
    'note': 'Trusted: rustc MIR and instance resolution, mirx, the rule library, the contract of the ASCII kernels (Some((unit, n)) => n < min(src.len(), dst.len())), &str validity at 11 frozen sites.',
    'technique': 'MIR typestate/dominance rules + available-expression dataflow for bounds facts + per-variant capacity/first-byte-write extraction',
}

CONFIGS = {'quick': ['default', 'simd'], 'thorough': ['default', 'simd', 'noalloc', 'fast', 'lessslow']}


def run(rep, facts, tier):
    for c, f in facts.items():
        r_ofpanic.run(rep, f, c, 'R-OFPANIC')      # runs R-HANDLE first (needs its guard capacities)
        n = r_inputempty.run(rep, f, c, 'R-INPUTEMPTY')
        rep.floor('R-INPUTEMPTY', 'InputEmpty constructions', n, 80, c)
        n, d = r_unchecked.run(rep, f, c, 'R-UNCHECKED')
        rep.floor('R-UNCHECKED', 'unchecked slice accesses outside write_code_unit', n, 100, c)
        r_dim.run(rep, f, c)
        r_utf8enc.run(rep, f, c)
        n = r_idxspace.run(rep, f, c)
        rep.floor('R-IDXSPACE', 'destination bounds checks discharged', n, 20, c)
        import p_c10
        for sink in ('utf8', 'utf16'):
            p_c10.helpers(rep, f, c, sink)     # (result, read, written) of the BOM replay helpers
    return ('other', MANIFEST['text'], [])
