"""R-IDXSPACE — every bounds check on the destination in the hand-written UTF-8 writers is implied by the space tests.

A checked store `dst[p + k] = ..` panics if the space test that should cover it is off by one.  For the functions listed in
SCOPE (those in which, on the pinned tree, every destination bounds check is discharged) the rule proves each BoundsCheck assert on
a `&mut` slice parameter redundant: facts of the form  X + a < len(dst)  (X a linear combination of symbols, a an integer) are
collected from the comparisons on a path — in whichever direction and with whichever operator they are written, through locals
such as `dst_len_minus_three = dst.len() - 3` — and an assert  X + k < len(dst)  is implied when a >= k for the same X.  At a loop
head the fact about the loop-carried position is the minimum over all incoming paths (computed by fixpoint iteration, so it is an
inductive invariant found by the analysis, not assumed).  Nothing is executed.
"""
from mirlib import *
from paths import *
from shape import *

SCOPE = ['handles::convert_unaligned_utf16_to_utf8', 'utf_8::convert_utf16_to_utf8_partial_inner', 'utf_8::convert_utf16_to_utf8_partial_tail',
         'utf_8::convert_utf8_to_utf16_up_to_invalid', 'mem::convert_latin1_to_utf8_partial']
TOP = 1 << 30


def is_dst_ty(ty):
    t = ty.replace(' ', '')
    return t.startswith('&mut[')


def lin(e):
    """-> ({term: coeff}, const)"""
    if e[0] == 'c' and isinstance(e[1], int):
        return {}, e[1]
    if e[0] == 'bin' and e[1] in ('Add', 'Sub'):
        a, ka = lin(e[2])
        b, kb = lin(e[3])
        sg = 1 if e[1] == 'Add' else -1
        out = dict(a)
        for t, v in b.items():
            out[t] = out.get(t, 0) + sg * v
            if out[t] == 0:
                del out[t]
        return out, ka + sg * kb
    if e[0] == 'cast':
        return lin(e[2])
    if e[0] == 'call' and (e[1] or '').endswith('::unwrap') and len(e[2]) == 1:
        # a.checked_add(b).unwrap() is a + b on every path that continues
        inner = e[2][0]
        while isinstance(inner, tuple) and inner[0] in ('ref', 'deref', 'move', 'copy'):
            inner = inner[1]
        if isinstance(inner, tuple) and inner[0] == 'call' and (inner[1] or '').endswith('::checked_add') and len(inner[2]) == 2:
            return lin(('bin', 'Add', inner[2][0], inner[2][1]))
    return {e: 1}, 0


def key_of(terms):
    return tuple(sorted(terms.items(), key=repr))


class Space:
    def __init__(self, f, b, D):
        self.f, self.b, self.D = f, b, D
        self.L = ('len', ('deref', ('loc', D)))
        self.r = Resolver(b)
        self.exp = {}
        for l in range(b.arg_count + 1, len(b.locals)):
            if b.single_def(l) is not None and b.locals[l]['ty'] == 'usize':
                self.exp[l] = self.r.local(l)

    def expand(self, e):
        if not isinstance(e, tuple) or not e:
            return e
        if e[0] == 'init' and e[1] in self.exp:
            return self.expand(self.exp[e[1]])
        if e[0] == 'loc' and e[1] in self.exp:
            return self.expand(self.exp[e[1]])
        if e[0] == 'len':
            x = strip_ref(e[1])
            while x[0] in ('deref', 'ref'):
                x = strip_ref(x[1])
            if x == ('loc', self.D):
                return self.L
        return tuple(self.expand(x) if isinstance(x, tuple) else x for x in e)

    def fact_of(self, cond, truth):
        """cond == truth  ->  (key X, a) with  X + a < L,  or None"""
        if cond[0] != 'bin' or cond[1] not in ('Lt', 'Le', 'Gt', 'Ge'):
            return None
        op, l, r = cond[1], self.expand(cond[2]), self.expand(cond[3])
        if op == 'Lt':
            A, B, strict = (l, r, True) if truth else (r, l, False)
        elif op == 'Le':
            A, B, strict = (l, r, False) if truth else (r, l, True)
        elif op == 'Gt':
            A, B, strict = (r, l, True) if truth else (l, r, False)
        else:
            A, B, strict = (r, l, False) if truth else (l, r, True)
        # A < B (strict) or A <= B
        ta, ka = lin(A)
        tb, kb = lin(B)
        d = dict(ta)
        for t, v in tb.items():
            d[t] = d.get(t, 0) - v
            if d[t] == 0:
                del d[t]
        k = ka - kb
        # d + k < 0  (or <= 0); isolate L: need coefficient of L == -1
        if d.get(self.L) != -1:
            return None
        del d[self.L]
        # X + k < L (strict) ; X + k <= L  ==  X + (k - 1) < L
        return key_of(d), (k if strict else k - 1)


def run(rep, f, c, rule='R-IDXSPACE'):
    n = 0
    for fn0 in SCOPE:
        for fn in impl_bodies(f, fn0):
            b = f.body(fn)
            if b is None:
                rep.undecidable(rule, fn, 'function not found', None, c)
                continue
            site = sp_str(b.raw['span'])
            dsts = [i for i in range(1, b.arg_count + 1) if is_dst_ty(b.locals[i]['ty'])]
            if len(dsts) != 1:
                rep.undecidable(rule, fn, 'expected one destination slice parameter', site, c)
                continue
            sp = Space(f, b, dsts[0])
            heads = sorted(set(loop_heads(b)))
            # loop-carried usize locals (candidate positions)
            carried = [l for l in range(b.arg_count + 1, len(b.locals)) if b.locals[l]['ty'] == 'usize' and len(b.defs.get(l, [])) >= 2]
            inv = {h: None for h in heads}          # {head: {local: a}}  meaning  local + a < L
            try:
                regions = {h: [(blks, end, summarize(b, blks, end)) for blks, end in enumerate_block_paths(b, h, stop=heads)] for h in [0] + heads}
            except OverflowError:
                rep.undecidable(rule, fn, 'path bound exceeded', site, c)
                continue
            failures = {}
            checked = set()
            for it in range(30):
                changed = False
                failures = {}
                for h in [0] + heads:
                    if h != 0 and inv[h] is None:
                        continue
                    base = dict(inv[h]) if h != 0 else {}
                    for blks, end, p in regions[h]:
                        if any(e[0] == 'cond' and isinstance(e[1], tuple) and e[1][0] == 'c' and isinstance(e[2], bool) and bool(e[1][1]) != e[2] for e in p.events):
                            continue
                        facts = {}
                        for l, a in base.items():
                            facts[key_of({('init', l): 1})] = a
                        for ev in p.events:
                            if ev[0] == 'cond' and isinstance(ev[2], bool) and isinstance(ev[1], tuple):
                                fa = sp.fact_of(ev[1], ev[2])
                                if fa is not None:
                                    facts[fa[0]] = max(facts.get(fa[0], -TOP), fa[1])
                            elif ev[0] == 'assert' and isinstance(ev[1], tuple) and ev[1][0] == 'bin' and ev[1][1] == 'Lt':
                                rhs = sp.expand(ev[1][3])
                                if rhs != sp.L:
                                    continue
                                t, k = lin(sp.expand(ev[1][2]))
                                key = key_of(t)
                                ok = facts.get(key, -TOP) >= k
                                at = sp_str(b.blocks[ev[3]]['tsp'])
                                checked.add((ev[3],))
                                if not ok:
                                    failures[(ev[3], at)] = 'the bounds check %s < dst.len() is not implied by the space tests on this path (proven: %s)' % (
                                        expr_str(ev[1][2], b)[:60], ('%s + %d < len' % (expr_str(ev[1][2], b)[:30], facts[key])) if key in facts else 'nothing about this position')
                        if end[0] in ('stop', 'back') and end[1] in inv:
                            new = {}
                            for l in carried:
                                v = p.env.get(l, ('init', l))
                                t, k = lin(sp.expand(v))
                                key = key_of(t)
                                if key in facts:
                                    new[l] = facts[key] - k
                            tgt = end[1]
                            if inv[tgt] is None:
                                inv[tgt] = new
                                changed = True
                            else:
                                merged = {l: min(a, new[l]) for l, a in inv[tgt].items() if l in new}
                                if merged != inv[tgt]:
                                    inv[tgt] = merged
                                    changed = True
                if not changed:
                    break
            n += len(checked)
            for (bb, at), msg in sorted(failures.items()):
                rep.ob(rule + '.store', '%s:%s' % (fn, msg.split(' < dst.len()')[0][-50:]), False, msg, at, None, c)
            rep.ob(rule, fn, not failures and len(checked) >= 1,
                   '%d destination bounds check(s) are not discharged' % len(failures) if failures else 'no destination bounds check found', site,
                   {'bounds_checks': len(checked), 'loop_invariants': {str(h): {b.locals[l].get('name') or str(l): a for l, a in (v or {}).items()} for h, v in inv.items()}}, c)
    rep.count('idxspace.bounds_checks:%s' % c, n)
    return n
