"""C19 — latin1_byte_compatible_up_to is exact and does not disturb the decoder (structural clauses D1–D5)."""
from mirlib import *
from paths import *
from shape import *
from ranges import *
import r_decclass, r_state, r_inv
from p_c07 import self_writes, transitive_reads

MANIFEST = {
    'category': 'other',
    'text': 'Decided from MIR for every decoder state and buffer at once: (D1) the life-cycle gate — Some only in Converting, a panic in '
            'Finished (documented misuse), None in every other (BOM-waiting) state; (D2) the per-variant table — single-byte: the table '
            'comparison loop (stop at the first byte whose table entry differs from the byte, count ASCII runs via validate_ascii, no early '
            'stop inside a run); ISO-2022-JP: its own validator, only in the neutral state; replacement and UTF-16: always None; x-user-defined: '
            'ascii_valid_up_to unconditionally; every other variant: ascii_valid_up_to exactly when in_neutral_state(); (D3) each '
            'in_neutral_state() consults every field the decode bodies write (frozen, reasoned exceptions), so "mid-sequence" is never '
            'missed; (D4) the call cannot disturb the decoder: every function reachable from it takes the decoder by shared reference and the '
            'decoder types contain no interior mutability; (D5) the ISO-2022-JP validator\'s reject set {>=80, 0E, 0F, 1B} is extracted exactly '
            'and equals the complement of what the ISO-2022-JP decoder passes through unchanged in its ASCII state (and of what the encoder '
            'passes through) — what makes n exact for ISO-2022-JP. Exactness of n inside long ASCII runs depends on the stride bookkeeping of '
            'the validators (C14) and is not decided here. (D3.exact) in_neutral_state answers true only in the state the constructor builds: on every path to `true` each test pins one state field to exactly its value in `new()` (is_none with None, == 0 with 0, == Ascii with Ascii, a false flag), so a test that also holds for another value (`lead.unwrap_or(0) == 0`) is reported. (D2.single, corrected after defect F7) the single-byte loop returns total + rest.len() when the rest is all ASCII, total + offset at the first byte that decodes to something else. (R-INV.escape-reset) the ISO-2022-JP decoder clears lead on every path on which an escape sequence is recognised, early returns included, so that in_neutral_state() answers for the state the decoder is really in. Also run here: R-KERNEL over the ASCII/UTF-8 validation kernels (ascii_valid_up_to and the stride loops behind it in every configuration), whose result is the answer for every ASCII-compatible encoding in the neutral state.',
    'note': 'Trusted: rustc MIR/type information (Freeze), mirx, rule library.',
    'technique': 'path summaries over MIR + exact interval extraction (validator vs decoder classes) + reference-kind / Freeze check over the call graph',
}
CONFIGS = {'quick': ['default'], 'thorough': ['default', 'noalloc', 'simd']}
SELF, BUF = ('loc', 1), ('loc', 2)
I = ISet.of

NEUTRAL_EXCEPTIONS = {
    ('utf_8::Utf8Decoder', 'code_point'): 'dead while bytes_needed == 0 (every reset sets them together)',
    ('utf_8::Utf8Decoder', 'bytes_seen'): 'dead while bytes_needed == 0',
    ('utf_8::Utf8Decoder', 'lower_boundary'): 'reset to 80 whenever a sequence ends; only meaningful while bytes_needed != 0',
    ('utf_8::Utf8Decoder', 'upper_boundary'): 'reset to BF whenever a sequence ends; only meaningful while bytes_needed != 0',
}
ASCII_WHEN_NEUTRAL = ('Utf8', 'Gb18030', 'Big5', 'EucJp', 'ShiftJis', 'EucKr')


def feasible(p):
    return not any((e[1] == ('c', 1, 'bool') and e[2] is False) for e in p.conds())


def d1(rep, f, c):
    fn = 'Decoder::latin1_byte_compatible_up_to'
    b = f.body(fn)
    if b is None:
        rep.undecidable('C19-D1', fn, 'not found', None, c)
        return
    site = sp_str(b.raw['span'])
    lc = f.adts['DecoderLifeCycle']
    states = {v['name'] for v in lc['variants']}
    LC = ('fld', ('deref', SELF), 'life_cycle')

    def enum_const(e, adt):
        """name of the fieldless-enum constant e (an aggregate or a promoted constant behind a reference), else None"""
        e = strip_ref(e)
        while e[0] in ('deref', 'ref'):
            e = strip_ref(e[1])
        if e[0] == 'agg':
            return variant_name(e)
        if e[0] == 'cptr' and e[2] == 0:
            import json as _json
            tgt = _json.loads(e[1])
            if 'mem' in tgt and str(tgt['mem']) in f.mems:
                dv = int.from_bytes(f.mem_bytes(tgt['mem']), 'little')
                names = [v_['name'] for v_ in adt['variants'] if v_['discr'] == dv]
                return names[0] if len(names) == 1 else None
        return None

    def holds(e, state):
        """does path condition e hold when life_cycle == state?  None: the condition is not about the life cycle"""
        ce, lab = e[1], e[2]
        if ce[0] == 'variant' and ce[1] == LC:
            names = lab if isinstance(lab, tuple) else (lab,)
            if None in names or 'None' in names and 'None' not in states:
                # the otherwise edge: every state not listed on the other edges of that switch
                listed = {variant_of_edge(b, e[3], l_) for l_, _ in switch_edges(b, e[3])} - {None}
                return state not in listed
            return state in names
        if ce[0] == 'call' and (ce[1] or '').endswith(('::eq', '::ne')) and len(ce[2]) == 2 and isinstance(lab, bool):
            a0 = strip_ref(ce[2][0])
            while a0[0] in ('deref', 'ref'):
                a0 = strip_ref(a0[1])
            if a0 == LC:
                k = enum_const(ce[2][1], lc)
                if k is None:
                    return 'unknown'
                return ((state == k) == ce[1].endswith('::eq')) == lab
        return None
    eff = {}
    paths = [p for p in region_paths(b, 0) if not any(e[1][0] == 'c' and isinstance(e[2], bool) and bool(e[1][1]) != e[2] for e in p.conds())]
    for state in sorted(states):
        outs = set()
        for p in paths:
            hs = [holds(e, state) for e in p.conds()]
            if 'unknown' in hs:
                outs.add('?')
                continue
            if any(h is False for h in hs):
                continue
            if p.end[0] == 'diverge':
                if [e for e in p.calls() if not (e[1] or '').endswith(('::eq', '::ne'))]:
                    outs.add('panic')
                elif 'unreachable' in b.blocks[p.end[1]]['t']:
                    continue
                else:
                    outs.add('?')
                continue
            rv = p.env.get(0)
            vc = [e for e in p.calls() if e[1] == 'variant::VariantDecoder::latin1_byte_compatible_up_to']
            if len(vc) == 1 and rv == ('call', vc[0][1], vc[0][2], vc[0][3]) and strip_ref(vc[0][2][0]) == ('fld', ('deref', SELF), 'variant') and strip_ref(vc[0][2][1]) == BUF:
                outs.add('variant')
            elif rv is not None and variant_name(rv) == 'None' and not [e for e in p.calls() if not (e[1] or '').endswith(('::eq', '::ne'))]:
                outs.add('None')
            else:
                outs.add('?')
        eff[state] = outs.pop() if len(outs) == 1 else ('missing' if not outs else '+'.join(sorted(outs)))
    want = {s: ('variant' if s == 'Converting' else 'panic' if s == 'Finished' else 'None') for s in states}
    rep.ob('C19-D1', fn, eff == want, 'life-cycle gate differs: %r' % {s: eff[s] for s in sorted(states) if eff[s] != want[s]}, site, {'gate': {s: eff[s] for s in sorted(states)}}, c)


def d2(rep, f, c):
    fn = 'variant::VariantDecoder::latin1_byte_compatible_up_to'
    b = f.body(fn)
    if b is None:
        rep.undecidable('C19-D2', fn, 'not found', None, c)
        return
    site = sp_str(b.raw['span'])
    adt = f.adts['variant::VariantDecoder']
    per = {}
    for p in region_paths(b, 0):
        if p.end[0] != 'return':
            continue
        # a branch on a value that is a constant on this path (an arm that yields `true` / `false` into a flag tested later)
        # has only one executable side
        if any(e[1][0] == 'c' and isinstance(e[2], bool) and bool(e[1][1]) != e[2] for e in p.conds()):
            continue
        st = [e for e in p.conds() if e[1][0] == 'variant' and e[1][1] == ('deref', SELF)]
        if len(st) != 1:
            continue
        names = st[0][2] if isinstance(st[0][2], tuple) else (st[0][2],)
        if None in names or 'None' in names:
            # the wildcard arm: every variant that has no edge of its own at that switch
            listed = {variant_of_edge(b, st[0][3], l_) for l_, _ in switch_edges(b, st[0][3])} - {None}
            names = tuple(sorted(x['name'] for x in adt['variants'] if x['name'] not in listed)) + tuple(n_ for n_ in names if n_ not in (None, 'None'))
        rv = p.env.get(0)
        neutral = [e for e in p.conds() if e[1][0] == 'call' and (e[1][1] or '').endswith('::in_neutral_state')]
        ncond = None
        if neutral:
            ne = neutral[0]
            recv = strip_ref(ne[1][2][0])
            ok_recv = recv[0] == 'fld' and recv[1][0] == 'as' and recv[1][2] in names
            ncond = (ne[1][1], ne[2], ok_recv)
        if rv is not None and variant_name(rv) == 'None':
            out = 'None'
        elif rv is not None and variant_name(rv) == 'Some':
            v = rv[2][0]
            if v[0] == 'call' and v[1] and strip_ref(v[2][-1]) == BUF:
                out = 'Some:' + v[1]
            else:
                out = 'Some:?'
        else:
            out = '?'
        for n in names:
            per.setdefault(n, []).append((ncond, out))
    for v in sorted(x['name'] for x in adt['variants']):
        got = sorted(per.get(v, []), key=str)
        payload_ty = [x for x in adt['variants'] if x['name'] == v][0]['fields'][0]['ty'].split('<')[0]
        ns = payload_ty + '::in_neutral_state'
        if v == 'SingleByte':
            want = [(None, 'Some:' + payload_ty + '::latin1_byte_compatible_up_to')]
        elif v in ASCII_WHEN_NEUTRAL:
            want = sorted([((ns, False, True), 'None'), ((ns, True, True), 'Some:Encoding::ascii_valid_up_to')], key=str)
        elif v == 'Iso2022Jp':
            want = sorted([((ns, False, True), 'None'), ((ns, True, True), 'Some:Encoding::iso_2022_jp_ascii_valid_up_to')], key=str)
        elif v == 'UserDefined':
            want = [(None, 'Some:Encoding::ascii_valid_up_to')]
        else:
            want = [(None, 'None')]
        rep.ob('C19-D2', '%s:%s' % (fn, v), got == want, 'variant %s answers %r; documented behaviour %r' % (v, got, want), site, {'answer': [str(x) for x in got]}, c)
    # the public validator wrappers are pass-throughs
    for w, inner in (('Encoding::ascii_valid_up_to', 'ascii::ascii_valid_up_to'), ('Encoding::iso_2022_jp_ascii_valid_up_to', 'ascii::iso_2022_jp_ascii_valid_up_to'),
                     ('Encoding::utf8_valid_up_to', 'utf_8::utf8_valid_up_to')):
        wb = f.body(w)
        if wb is None:
            rep.undecidable('C19-D2.wrapper', w, 'not found', None, c)
            continue
        cs = [(bi, t) for bi, t in wb.calls()]
        r = Resolver(wb)
        ok = len(cs) == 1 and wb.callee(cs[0][1]) == inner and strip_ref(r.operand(cs[0][1]['args'][0])) == ('loc', 1) and cs[0][1]['dest']['l'] == 0
        rep.ob('C19-D2.wrapper', w, ok, 'public validator is not a pass-through to %s' % inner, sp_str(wb.raw['span']), None, c)
    # single-byte comparison loop
    sfn = 'single_byte::SingleByteDecoder::latin1_byte_compatible_up_to'
    sb = f.body(sfn)
    if sb is None:
        rep.undecidable('C19-D2.single', sfn, 'not found', None, c)
        return
    site = sp_str(sb.raw['span'])
    heads = loop_heads(sb)
    # roles: `bytes` = the loop-carried slice handed to validate_ascii, `total` = the loop-carried count returned when it answers None
    tot, byt = [], []
    if len(heads) == 1:
        for p_ in region_paths(sb, heads[0]):
            va_ = [e for e in p_.calls() if e[1] == 'ascii::validate_ascii']
            if len(va_) == 1:
                a_ = strip_ref(va_[0][2][0])
                if a_[0] == 'init' and a_[1] not in byt:
                    byt.append(a_[1])
                rv_ = p_.env.get(0)
                if p_.end[0] == 'return' and rv_ is not None:
                    # the running count: the loop-carried usize local the returned sum starts from
                    for s_ in walk(rv_):
                        if isinstance(s_, tuple) and len(s_) == 2 and s_[0] == 'init' and sb.locals[s_[1]]['ty'] == 'usize' and \
                                len(sb.defs.get(s_[1], [])) >= 2 and s_[1] not in tot:
                            tot.append(s_[1])
    index_mode = False
    if len(heads) == 1 and not byt:
        # the rest of the input may be re-derived from the count instead of carried as a slice: validate_ascii(&buffer[total..])
        for p_ in region_paths(sb, heads[0]):
            for e_ in p_.calls():
                if e_[1] == 'ascii::validate_ascii':
                    ix_ = index_from(e_[2][0])
                    if ix_ is not None and len(ix_) == 2 and strip_ref(ix_[0]) == BUF and ix_[1][0] == 'init':
                        index_mode = True
                        if ix_[1][1] not in tot:
                            tot.append(ix_[1][1])
    if len(heads) != 1 or len(tot) != 1 or (len(byt) != 1 and not index_mode):
        rep.undecidable('C19-D2.single', sfn, 'loop / accumulators not found', site, c)
        return
    T = ('init', tot[0])
    if index_mode:
        B = ('call', 'core::slice::index::<impl core::ops::Index<I> for [T]>::index', (('ref', ('deref', BUF)), ('agg', 'core::ops::RangeFrom::RangeFrom', (T,))), None)
    else:
        B = ('init', byt[0])
    ok = True
    why = ''
    kinds = set()
    pre = [summarize(sb, blks, end) for blks, end in enumerate_block_paths(sb, 0, stop=heads)]
    ok &= all(p.env.get(tot[0]) == C(0) and (index_mode or strip_ref(p.env.get(byt[0])) == BUF) for p in pre if p.end[0] == 'stop')
    for p in [p for p in region_paths(sb, heads[0]) if feasible(p)]:
        if p.end[0] == 'diverge':
            continue
        va = [e for e in p.calls() if e[1] == 'ascii::validate_ascii']
        if index_mode:
            ixa = index_from(va[0][2][0]) if len(va) == 1 else None
            fed = ixa is not None and len(ixa) == 2 and strip_ref(ixa[0]) == BUF and ixa[1] == T
        else:
            fed = len(va) == 1 and strip_ref(va[0][2][0]) == strip_ref(B)
        if len(va) != 1 or not fed:
            ok = False
            why = 'each iteration must call validate_ascii(bytes) exactly once'
            continue
        res = ('call', va[0][1], va[0][2], va[0][3])
        arm = [e for e in p.conds() if e[1][0] == 'variant' and e[1][1] == res]
        rv = p.env.get(0)
        if arm and arm[0][2] == 'None':
            kinds.add('end')
            # documented: "... or the length of the input if all bytes in the input decode directly": when the remainder is all
            # ASCII the answer is what was counted so far PLUS the length of that remainder (the first build of this rule had
            # transcribed the code here — `return total` — instead of the documentation, and so agreed with a genuine defect)
            def is_total_plus_rest(e):
                if index_mode and e == ('len', BUF):
                    return True            # total + (buffer.len() - total)
                try:
                    t_, k_ = add_terms(e)
                except Exception:
                    return False
                rest_ = ('len', strip_ref(va[0][2][0])) if index_mode else ('len', strip_ref(B))
                return k_ == 0 and sorted(t_, key=repr) == sorted([T, rest_], key=repr)
            if not (p.end[0] == 'return' and rv is not None and is_total_plus_rest(rv)):
                ok = False
                why = ('when the rest of the buffer is all ASCII the function must return total + bytes.len() (every remaining byte is compatible); '
                       'it returns %s: the answer stops short inside an ASCII run (e.g. Some(0) for b"abc")' % expr_str(rv, sb)[:60] if rv is not None else 'no value')
            continue
        pay = ('fld', ('as', res, 'Some'), '0')
        non_ascii, offset = ('fld', pay, '0'), ('fld', pay, '1')
        T1 = ('bin', 'Add', T, offset)
        cmp_ = [e for e in p.conds() if e[1][0] == 'bin' and e[1][1] in ('Ne', 'Eq')]
        good_cmp = False
        mismatch = None
        for e in cmp_:
            l, r_ = e[1][2], e[1][3]
            for a, b2 in ((l, r_), (r_, l)):
                # table[non_ascii as usize - 0x80]  vs  u16::from(non_ascii)
                ta = strip_ref(a)
                tb = cast_inner(strip_ref(b2))
                if tb[0] == 'call' and (tb[1] or '').endswith('::from'):
                    tb = tb[2][0]
                is_tbl = ta[0] == 'call' and (ta[1] or '').endswith('get_unchecked') and any(s_ == ('fld', ('deref', SELF), 'table') for s_ in walk(ta)) \
                    and ta[2][1] == ('bin', 'Sub', ('cast', 'IntToInt', non_ascii, 'usize'), C(0x80))
                if is_tbl and tb == non_ascii:
                    good_cmp = True
                    mismatch = e[2] if e[1][1] == 'Ne' else (not e[2])
        if not good_cmp:
            ok = False
            why = 'the non-ASCII byte is not compared with its own table entry table[b - 0x80]'
            continue
        if mismatch:
            kinds.add('stop')
            if not (p.end[0] == 'return' and rv == T1):
                ok = False
                why = 'on the first incompatible byte the result must be total + offset (the index of that byte)'
        else:
            kinds.add('go-on')
            nb = p.env.get(byt[0]) if not index_mode else None
            ix = index_from(nb) if nb is not None else None
            adv_slice = index_mode or (ix is not None and len(ix) == 2 and strip_ref(ix[0]) == strip_ref(B) and add_terms(ix[1]) == add_terms(('bin', 'Add', offset, C(1))))
            if not (p.end[0] in ('back', 'stop') and add_terms(p.env.get(tot[0])) == add_terms(('bin', 'Add', T1, C(1))) and adv_slice):
                ok = False
                why = 'after a compatible non-ASCII byte the scan must continue at bytes[offset + 1..] with total + offset + 1'
    rep.ob('C19-D2.single', sfn, ok and kinds == {'end', 'stop', 'go-on'}, why or 'cases %r' % sorted(kinds), site, {'cases': sorted(kinds)}, c)


def d3(rep, f, c):
    n = 0
    for name, b in sorted(f.bodies.items()):
        if not name.endswith('Decoder::in_neutral_state'):
            continue
        ty = name.rsplit('::', 1)[0]
        w = set()
        for sink in ('decode_to_utf8_raw', 'decode_to_utf16_raw'):
            db = f.body(ty + '::' + sink)
            if db is not None:
                w |= self_writes(db)
        rd = transitive_reads(f, name)
        miss = sorted(x for x in w - rd if (ty, x) not in NEUTRAL_EXCEPTIONS)
        n += 1
        rep.ob('C19-D3', name, not miss, 'state field(s) %r written by the decode bodies are not consulted: a mid-sequence decoder could claim to be neutral' % miss,
               sp_str(b.raw['span']), {'written': sorted(w), 'read': sorted(rd)}, c)
    rep.floor('C19-D3', 'in_neutral_state implementations', n, 7, c, exact=True)


def initial_fields(f, ty):
    """{field: resolved initial value} from the struct literal in `ty::new` / `ty::new_inner`"""
    for ctor in (ty + '::new', ty + '::new_inner'):
        b = f.body(ctor)
        if b is None:
            continue
        r = Resolver(b)
        for blk in b.blocks:
            for st in blk['s']:
                if 'assign' in st and 'aggregate' in st['rv'] and isinstance(st['rv']['aggregate'], dict) and st['rv']['aggregate'].get('adt') == ty:
                    return {n_: r.operand(o) for n_, o in zip(st['rv']['aggregate']['fields'], st['rv']['ops'])}
    return None


def enum_pred_true_variants(f, fn):
    """variants for which a crate predicate on an enum (`Pending::is_none(&self)`) returns true; None if not decidable"""
    b = f.body(fn)
    if b is None:
        return None
    out = set()
    for p in region_paths(b, 0):
        if p.end[0] != 'return':
            continue
        vs = [e for e in p.conds() if e[1][0] == 'variant']
        rv = p.env.get(0)
        if len(vs) != 1 or rv is None or rv[0] != 'c':
            return None
        if rv[1]:
            out |= set(vs[0][2] if isinstance(vs[0][2], tuple) else (vs[0][2],))
    return out


def d3_exact(rep, f, c):
    """in_neutral_state answers true only in the state the constructor builds: every test on a path to `true` pins one state field
    to exactly its initial value (`lead.is_none()` with lead: None, `lead == 0` with lead: 0, `state == Ascii` ...).  A test that
    is also true for another value of the field (`lead.unwrap_or(0) == 0` holds for Some(0)) lets a mid-sequence decoder
    claim to be neutral."""
    n = 0
    for name, b in sorted(f.bodies.items()):
        if not name.endswith('Decoder::in_neutral_state'):
            continue
        ty = name.rsplit('::', 1)[0]
        site = sp_str(b.raw['span'])
        init = initial_fields(f, ty)
        if init is None:
            rep.undecidable('C19-D3.exact', name, 'constructor literal of %s not found' % ty, site, c)
            continue

        def fld(e):
            e = strip_ref(e)
            while e[0] in ('deref', 'ref'):
                e = strip_ref(e[1])
            return e[2] if e[0] == 'fld' and e[1] == ('deref', SELF) else None

        def literal(e, truth):
            """-> (field, ok) if `e == truth` pins a field to its initial value exactly; (field or None, False) otherwise"""
            if e[0] == 'un' and e[1] == 'Not':
                return literal(e[2], not truth)
            if e[0] == 'c':
                return ('', bool(e[1]) == truth)
            fl = fld(e)
            if fl is not None:                       # a bool field tested directly
                return (fl, init.get(fl) == ('c', 1 if truth else 0, 'bool'))
            if e[0] == 'call' and len(e[2]) >= 1:
                fn_ = e[1] or ''
                fl = fld(e[2][0])
                iv = init.get(fl)
                ivn = variant_name(iv) if iv is not None and iv[0] == 'agg' else None
                if fl is not None and fn_.startswith('core::option::Option::<T>::') and fn_.endswith(('::is_none', '::is_some')):
                    return (fl, ivn == 'None' and truth == fn_.endswith('::is_none'))
                if fl is not None and len(e[2]) == 1 and f.body(fn_) is not None:
                    tv = enum_pred_true_variants(f, fn_)
                    return (fl, truth is True and tv is not None and tv == {ivn})
                if fl is not None and len(e[2]) == 2 and fn_.endswith(('::eq', '::ne')) and 'PartialEq' in fn_:
                    other = strip_ref(e[2][1])
                    while other[0] in ('deref', 'ref'):
                        other = strip_ref(other[1])
                    same = other == iv
                    if other[0] == 'cptr' and other[2] == 0 and fn_.startswith('<') and ' as ' in fn_:
                        # a promoted constant of a fieldless enum: its memory is the discriminant
                        import json as _json
                        adt = f.adts.get(fn_[1:fn_.index(' as ')])
                        tgt = _json.loads(other[1])
                        if adt is not None and 'mem' in tgt and str(tgt['mem']) in f.mems and all(not v_['fields'] for v_ in adt['variants']):
                            raw = f.mem_bytes(tgt['mem'])
                            dv = int.from_bytes(raw, 'little')
                            names = [v_['name'] for v_ in adt['variants'] if v_['discr'] == dv]
                            same = len(names) == 1 and names[0] == ivn
                    elif other[0] != 'agg':
                        return (fl, False)
                    return (fl, same and truth == fn_.endswith('::eq'))
                return (fl, False)
            if e[0] == 'bin' and e[1] in ('Eq', 'Ne'):
                for a_, b_ in ((e[2], e[3]), (e[3], e[2])):
                    fl = fld(a_)
                    if fl is not None and b_[0] == 'c':
                        iv = init.get(fl)
                        return (fl, iv is not None and iv[0] == 'c' and iv[1] == b_[1] and truth == (e[1] == 'Eq'))
            return (None, False)
        bad = []
        ntrue = 0
        for p in region_paths(b, 0):
            if p.end[0] != 'return':
                continue
            rv = p.env.get(0)
            lits = [(e[1], e[2]) for e in p.conds() if isinstance(e[2], bool)]
            if rv is None:
                continue
            if rv[0] == 'c':
                if not rv[1]:
                    continue
            else:
                lits.append((rv, True))
            ntrue += 1
            for e_, t_ in lits:
                fl, ok = literal(e_, t_)
                if not ok:
                    bad.append('%s%s' % ('' if t_ else '!', expr_str(e_, b)[:90]))
            # a match on a field (`matches!(self.lead, None)`): the arm taken must be exactly the initial variant
            for e in p.conds():
                if e[1][0] == 'variant' and fld(e[1][1]) is not None:
                    iv = init.get(fld(e[1][1]))
                    ivn = variant_name(iv) if iv is not None and iv[0] == 'agg' else None
                    if e[2] != ivn:
                        bad.append('%s matched as %s' % (fld(e[1][1]), e[2]))
        n += 1
        rep.ob('C19-D3.exact', name, not bad and ntrue >= 1,
               'in_neutral_state can answer true in a state other than the one %s::new builds: the test %s does not pin its field to exactly the initial value '
               '(a decoder holding part of a sequence would report itself neutral)' % (ty, sorted(set(bad))[:2]) if bad else 'no path answers true',
               site, {'initial': {k: expr_str(v, b)[:40] for k, v in init.items()}}, c)
    rep.floor('C19-D3.exact', 'in_neutral_state implementations', n, 7, c, exact=True)


def d4(rep, f, c):
    # call-graph closure from the public method
    seen = set()
    work = ['Decoder::latin1_byte_compatible_up_to']
    bad = []
    while work:
        fn = work.pop()
        if fn in seen:
            continue
        seen.add(fn)
        b = f.body(fn)
        if b is None:
            continue
        for i in range(1, b.arg_count + 1):
            ty = b.locals[i]['ty']
            if ty.startswith('&') and 'mut ' in ty.split(' ')[0:2][-1] + ' ' and ('Decoder' in ty):
                bad.append((fn, ty))
            if ty.startswith('&mut ') and 'Decoder' in ty:
                bad.append((fn, ty))
        for bi, t in b.calls():
            cal = b.callee(t)
            if cal and f.body(cal) is not None:
                work.append(cal)
    rep.ob('C19-D4.shared', 'Decoder::latin1_byte_compatible_up_to', not bad, 'a function reachable from the query takes a decoder by mutable reference: %r' % bad[:3], None,
           {'reachable_bodies': len(seen)}, c)
    rep.floor('C19-D4.shared', 'bodies reachable from the query', len(seen), 15, c)
    for ty in ['Decoder', 'variant::VariantDecoder'] + sorted(a for a in f.adts if a.endswith('Decoder') and '::' in a and not a.startswith('variant::')):
        a = f.adts.get(ty)
        if a is None:
            rep.undecidable('C19-D4.freeze', ty, 'type not found', None, c)
            continue
        rep.ob('C19-D4.freeze', ty, a.get('freeze') is True, 'decoder type has interior mutability: a &self method could change it', sp_str(a['span']), None, c)


def d5(rep, f, c):
    rej = r_decclass.validator_reject_set(f, 'ascii::iso_2022_jp_ascii_valid_up_to')
    want = I(0x0E, 0x0F, 0x1B, (0x80, 0xFF))
    rep.ob('C19-D5.validator', 'ascii::iso_2022_jp_ascii_valid_up_to', rej == want, 'reject set %r; expected %r' % (rej, want), None, {'reject': repr(rej)}, c)
    for sink in ('decode_to_utf8_raw',):
        b = f.body('iso_2022_jp::Iso2022JpDecoder::' + sink)
        res = r_decclass.state_classes(f, b, 'decoder_state') if b is not None else None
        if not res or res[1]:
            rep.undecidable('C19-D5.decoder', 'iso_2022_jp::Iso2022JpDecoder', 'ASCII-state classes not decidable', None, c)
            continue
        passthru = res[0].get('Ascii', {}).get(('write_ascii', 'b'), ISet())
        rep.ob('C19-D5.decoder', 'iso_2022_jp::Iso2022JpDecoder', rej is not None and passthru == I((0, 255)) - rej,
               'validator accepts %r but the decoder passes %r through unchanged in the ASCII state' % (I((0, 255)) - rej if rej else None, passthru), None, {'pass_through': repr(passthru)}, c)
    eb = f.body('iso_2022_jp::Iso2022JpEncoder::encode_from_utf8_raw')
    if eb is not None:
        res = r_state.classes(f, eb, loop_heads(eb))
        if res:
            enc_pass = res[0].get('Ascii', {}).get('one:c', ISet())
            rep.ob('C19-D5.encoder', 'iso_2022_jp::Iso2022JpEncoder', rej is not None and enc_pass == I((0, 255)) - rej,
                   'validator accepts %r but the encoder passes %r through in the ASCII state' % (I((0, 255)) - rej if rej else None, enc_pass), None, None, c)


def run(rep, facts, tier):
    for c, f in facts.items():
        d1(rep, f, c)
        d2(rep, f, c)
        d3(rep, f, c)
        d3_exact(rep, f, c)
        d4(rep, f, c)
        d5(rep, f, c)
        r_inv.escape_reset(rep, f, c, 'R-INV')
        import r_kernel
        r_kernel.run(rep, f, c, 'R-KERNEL', ['validate'])     # ascii_valid_up_to & co.: the answer for every ASCII-compatible encoding in the neutral state
    return ('other', MANIFEST['text'], [])
