"""R-PREPEND — ISO-2022-JP decoder: the byte put back after a broken escape sequence is decoded like any other byte.

After `ESC $ x` / `ESC ( x` with an x that completes no escape sequence, the Standard prepends the `$` / `(` to the stream: it is
decoded again, by the state the decoder returned to.  The implementation keeps it in `lead` (pending_prepended) and writes it in the
preamble of the next call, in code that is separate from the main loop.  Sibling agreement: for each decoder state S the preamble
handles and each of the two bytes v in {24, 28}, the preamble's (writer, value written for lead = v) must be the main loop's
(writer, value written for b = v) in state S.  Both sides are extracted from path summaries: the state from the match on
decoder_state, the byte's admitted values from the path's conditions on it and the value written as an exact function of the byte
(R-RANGE)."""
from mirlib import *
from paths import *
from shape import *
from ranges import ISet, _mk, leaves
import r_utf8store

SELF = ('loc', 1)
STATE = ('fld', ('deref', SELF), 'decoder_state')
LEAD = ('fld', ('deref', SELF), 'lead')
BYTES = (0x24, 0x28)


def at_value(av, v):
    for lo, hi, k, a in av.pieces:
        if lo <= v <= hi:
            if k == 'x':
                return v + a
            if k == 'c':
                return a
            return None
    return None


def states_of(p, body):
    out = None
    for e in p.conds():
        if e[1][0] == 'variant' and e[1][1] == STATE:
            names = e[2] if isinstance(e[2], tuple) else (e[2],)
            if None in names:
                continue
            s = {str(x) for x in names}
            out = s if out is None else out & s
    return out


def run(rep, f, c, rule='R-PREPEND'):
    n = 0
    for sink in ('utf8', 'utf16'):
        fn = 'iso_2022_jp::Iso2022JpDecoder::decode_to_%s_raw' % sink
        b = f.body(fn)
        if b is None:
            rep.undecidable(rule, fn, 'function not found', None, c)
            continue
        site = sp_str(b.raw['span'])
        heads = loop_heads(b)
        res = Resolver(b)
        try:
            pre = [summarize(b, blks, end) for blks, end in enumerate_block_paths(b, 0, stop=heads, limit=60000)]
            loop = []
            for H in heads:
                loop += [summarize(b, blks, end) for blks, end in enumerate_block_paths(b, H, stop=heads, limit=60000)]
        except OverflowError as e:
            rep.undecidable(rule, fn, str(e), site, c)
            continue

        def writes(p):
            return [(e[1].rsplit('::', 1)[-1], e[2][1]) for e in p.calls() if 'Handle::write_' in (e[1] or '')]
        # main loop: state -> byte value -> set of (writer, value)
        main = {}
        for p in loop:
            if p.end[0] == 'diverge':
                continue
            ss = states_of(p, b)
            ws = writes(p)
            if not ss or len(ws) != 1:
                continue
            # the byte of this iteration: the read handle's result
            byte = None
            for e in p.calls():
                if (e[1] or '').endswith('ByteReadHandle::read'):
                    byte = ('fld', ('call', e[1], e[2], e[3]), '0')
            if byte is None:
                continue
            dom = r_utf8store.leaf_domain(f, b, p, byte, 8)
            ra = _mk(f, b, res, byte, 8, 256)
            try:
                av = ra.ev(ws[0][1])
            except Exception:
                continue
            for v in BYTES:
                if v in dom:
                    val = at_value(av, v)
                    for s in ss:
                        main.setdefault(s, {}).setdefault(v, set()).add((ws[0][0], val))
        # preamble
        k = 0
        bad = []
        for p in pre:
            if p.end[0] == 'diverge':
                continue
            ws = writes(p)
            ss = states_of(p, b)
            if not ws or not ss:
                continue
            if len(ws) != 1 or set(leaves(ws[0][1])) - {LEAD}:
                continue
            ra = _mk(f, b, res, LEAD, 8, 256)
            try:
                av = ra.ev(ws[0][1])
            except Exception:
                continue
            for s in sorted(ss):
                for v in BYTES:
                    k += 1
                    got = (ws[0][0], at_value(av, v))
                    want = main.get(s, {}).get(v)
                    if want is None or len(want) != 1 or got not in want:
                        bad.append('in state %s the prepended byte %02X is written by %s(%s) but the main loop decodes that byte in that state with %s'
                                   % (s, v, got[0], 'U+%04X' % got[1] if got[1] is not None else '?',
                                      ', '.join('%s(%s)' % (w_, 'U+%04X' % x_ if x_ is not None else '?') for w_, x_ in sorted(want or [], key=str)) or 'nothing'))
        n += k
        rep.ob(rule, fn, not bad and k >= 4, '; '.join(sorted(set(bad))[:2]) if bad else 'no preamble write of the prepended byte found', site,
               {'cases': k, 'main_loop': {s: {('%02X' % v): sorted(map(str, x)) for v, x in m.items()} for s, m in main.items()}}, c)
    return n
